---- MODULE ConstsFromJson ----
EXTENDS Integers, TLC, Json, IOUtils, Sequences, FiniteSets
K == JsonDeserialize(IOEnv.CONSTS)
Zones == K.zones
ASSUME PrintT(<<Cardinality(DOMAIN Zones), Zones["EST"], Zones["CET"], K.rated[1], Len(K.rated)>>)
Shown(w, z1, z2) == (w - Zones[z1] * 60 + Zones[z2] * 60) % 86400
ASSUME PrintT(<<DOMAIN K.alias, ToJson(K.alias)>>)
ASSUME PrintT(Shown(11*3600+1800, "EST", "CET"))
VARIABLE x
Init == x = 0
Next == UNCHANGED x
====
