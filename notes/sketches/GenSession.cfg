CONSTANT MaxDepth = 5
INIT Init
NEXT Next
INVARIANT Emit
INVARIANT SlotPerLine
CHECK_DEADLOCK FALSE
