---- MODULE GenSession ----
EXTENDS Integers, Sequences, TLC, Json, FiniteSets
CONSTANT MaxDepth
Names == {"foo","bar"}
\* line forms: [f |-> "assign", n, v], [f |-> "use", n], [f |-> "fail"]
Texts == << <<[f |-> "assign", n |-> "foo", v |-> 1]>>,
            <<[f |-> "assign", n |-> "bar", v |-> 2], [f |-> "use", n |-> "foo"]>>,
            <<[f |-> "use", n |-> "foo"], [f |-> "fail"], [f |-> "use", n |-> "bar"]>>,
            <<[f |-> "assign", n |-> "foo", v |-> 7], [f |-> "assign", n |-> "bar", v |-> 8], [f |-> "use", n |-> "foo"]>> >>
Sessions == {"s1","s2"}
NoVal == -1
VARIABLES env, text, fresh, hist
vars == <<env, text, fresh, hist>>
EvalLine(e, l) == CASE l.f = "assign" -> [slot |-> l.v, env |-> [e EXCEPT ![l.n] = l.v]]
                    [] l.f = "use" -> [slot |-> e[l.n], env |-> e]   \* NoVal = name unbound -> unspecified
                    [] l.f = "fail" -> [slot |-> -2, env |-> e]
RECURSIVE Run(_,_,_)
Run(e, ls, acc) == IF ls = <<>> THEN [slots |-> acc, env |-> e]
                   ELSE LET r == EvalLine(e, Head(ls)) IN Run(r.env, Tail(ls), Append(acc, r.slot))
Empty == [n \in Names |-> NoVal]
Init == env = [s \in Sessions |-> Empty] /\ text = [s \in Sessions |-> 0] /\ fresh = [s \in Sessions |-> FALSE] /\ hist = <<>>
Exec(t) == LET r == Run(Empty, Texts[t], <<>>) IN
           /\ hist' = Append(hist, [call |-> "execute", text |-> t, slots |-> r.slots])
           /\ UNCHANGED <<env, text, fresh>>
SetText(s, t) == /\ text' = [text EXCEPT ![s] = t] /\ fresh' = [fresh EXCEPT ![s] = TRUE]
                 /\ hist' = Append(hist, [call |-> "set_text", s |-> s, text |-> t]) /\ UNCHANGED env
ExecSession(s) == /\ fresh[s]
                  /\ LET r == Run(env[s], Texts[text[s]], <<>>) IN
                       /\ env' = [env EXCEPT ![s] = r.env]
                       /\ hist' = Append(hist, [call |-> "execute_session", s |-> s, slots |-> r.slots])
                  /\ fresh' = [fresh EXCEPT ![s] = FALSE] /\ UNCHANGED text
Next == /\ Len(hist) < MaxDepth
        /\ \/ \E t \in DOMAIN Texts : Exec(t)
           \/ \E s \in Sessions, t \in DOMAIN Texts : SetText(s, t)
           \/ \E s \in Sessions : ExecSession(s)
Done == Len(hist) = MaxDepth
Emit == Done => PrintT(<<"CASE", ToJson(hist)>>)
SlotPerLine == \A i \in DOMAIN hist : hist[i].call \in {"execute"} => Len(hist[i].slots) = Len(Texts[hist[i].text])
====
