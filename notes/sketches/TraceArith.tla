---- MODULE TraceArith ----
EXTENDS Arith, Json, IOUtils
Rec == ndJsonDeserialize(IOEnv.TRACE)
VARIABLE l
Init == l = 1
Next == /\ l <= Len(Rec)
        /\ LET r == Rec[l] e == EvalLine(r.toks) IN
             /\ e.ok = r.ok
             /\ (e.ok => e.v = Norm(r.val))
        /\ l' = l + 1
Spec == Init /\ [][Next]_l
Accepted == IF TLCGet("stats").diameter - 1 = Len(Rec) THEN TRUE
            ELSE PrintT(<<"REJECT at", TLCGet("stats").diameter, Rec[TLCGet("stats").diameter]>>) /\ FALSE
====
