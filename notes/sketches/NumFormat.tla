---- MODULE NumFormat ----
EXTENDS Integers, Sequences, TLC
\* A value is given by its exact decimal expansion:
\*   neg   : BOOLEAN
\*   ip    : non-empty sequence of digits 0..9 (no leading zeros unless <<0>>)
\*   fp    : sequence of digits after the point, at least d+1 long (padded with zeros)
\*   sticky: TRUE iff some digit beyond fp is non-zero
\* cfg: [d |-> 0..9, remove |-> BOOLEAN, dec |-> STRING, tho |-> STRING]
\* Output: sequence of one-character strings.

Ch == <<"0","1","2","3","4","5","6","7","8","9">>
DigitChars(ds) == [i \in 1..Len(ds) |-> Ch[ds[i] + 1]]
AllZero(ds) == \A i \in 1..Len(ds) : ds[i] = 0

\* add one unit in the last place of a digit sequence; result may be one longer
RECURSIVE Inc(_)
Inc(ds) == IF ds = <<>> THEN <<1>>
           ELSE LET n == Len(ds) IN
                IF ds[n] < 9 THEN [ds EXCEPT ![n] = @ + 1]
                ELSE Append(Inc(SubSeq(ds, 1, n-1)), 0)

\* the two candidate roundings of ip.fp to d fraction digits: <<down, up>> as full digit strings (ip ++ first d of fp)
Trunc(ip, fp, d) == ip \o SubSeq(fp, 1, d)
Up(ip, fp, d) == Inc(Trunc(ip, fp, d))
\* rest = digit d+1 and everything after
RoundChoices(ip, fp, sticky, d) ==
   LET nxt == fp[d+1]
       tailZero == AllZero(SubSeq(fp, d+2, Len(fp))) /\ ~sticky
   IN IF nxt < 5 THEN {Trunc(ip, fp, d)}
      ELSE IF nxt > 5 \/ ~tailZero THEN {Up(ip, fp, d)}
      ELSE {Trunc(ip, fp, d), Up(ip, fp, d)}       \* exact tie: both accepted

RECURSIVE Group(_, _)
Group(ipchars, tho) ==   \* insert tho before every third digit from the right
   IF Len(ipchars) <= 3 THEN ipchars
   ELSE Group(SubSeq(ipchars, 1, Len(ipchars) - 3), tho) \o (IF tho = "" THEN <<>> ELSE <<tho>>) \o SubSeq(ipchars, Len(ipchars) - 2, Len(ipchars))

Render(all, d, neg, cfg) ==
   LET n == Len(all)
       ipd == SubSeq(all, 1, n - d)
       fpd == SubSeq(all, n - d + 1, n)
       body == Group(DigitChars(ipd), cfg.tho)
       frac == IF d = 0 \/ (cfg.remove /\ AllZero(fpd)) THEN <<>> ELSE <<cfg.dec>> \o DigitChars(fpd)
   IN (IF neg THEN <<"-">> ELSE <<>>) \o body \o frac

Formats(v, cfg) == { Render(all, cfg.d, v.neg, cfg) : all \in RoundChoices(v.ip, v.fp, v.sticky, cfg.d) }
====
