---- MODULE Arith ----
EXTENDS Integers, Sequences, TLC

RECURSIVE Gcd(_,_)
Gcd(a,b) == IF b = 0 THEN a ELSE Gcd(b, a % b)
Abs(x) == IF x < 0 THEN -x ELSE x
Norm(q) == IF q[1] = 0 THEN <<0,1>> ELSE
           LET g == Gcd(Abs(q[1]), Abs(q[2])) s == IF q[2] < 0 THEN -1 ELSE 1
           IN <<(s * q[1]) \div g, (s * q[2]) \div g>>
QAdd(a,b) == Norm(<<a[1]*b[2] + b[1]*a[2], a[2]*b[2]>>)
QSub(a,b) == Norm(<<a[1]*b[2] - b[1]*a[2], a[2]*b[2]>>)
QMul(a,b) == Norm(<<a[1]*b[1], a[2]*b[2]>>)
QDiv(a,b) == IF b[1] = 0 THEN <<0,1>> ELSE Norm(<<a[1]*b[2], a[2]*b[1]>>)
QNeg(a) == <<-a[1], a[2]>>
Apply(op,a,b) == CASE op = "+" -> QAdd(a,b) [] op = "-" -> QSub(a,b) [] op = "*" -> QMul(a,b) [] op = "/" -> QDiv(a,b)

Fail == [ok |-> FALSE, v |-> <<0,1>>, i |-> 0]
IsOp(toks, i, S) == i <= Len(toks) /\ toks[i].k = "op" /\ toks[i].c \in S
StartsPrimary(toks, i) == i <= Len(toks) /\ (toks[i].k = "num" \/ toks[i].k = "lp")

RECURSIVE PExpr(_,_), PExprTail(_,_,_), PTerm(_,_), PTermTail(_,_,_), PUnary(_,_), PPrimary(_,_)
PExpr(toks, i) == LET t == PTerm(toks, i) IN IF t.ok THEN PExprTail(toks, t.i, t.v) ELSE Fail
PExprTail(toks, i, acc) ==
   IF IsOp(toks, i, {"+","-"}) THEN
        LET t == PTerm(toks, i+1) IN IF t.ok THEN PExprTail(toks, t.i, Apply(toks[i].c, acc, t.v)) ELSE Fail
   ELSE IF StartsPrimary(toks, i) THEN
        LET t == PTerm(toks, i) IN IF t.ok THEN PExprTail(toks, t.i, QAdd(acc, t.v)) ELSE Fail
   ELSE [ok |-> TRUE, v |-> acc, i |-> i]
PTerm(toks, i) == LET u == PUnary(toks, i) IN IF u.ok THEN PTermTail(toks, u.i, u.v) ELSE Fail
PTermTail(toks, i, acc) ==
   IF IsOp(toks, i, {"*","/"}) THEN
        LET u == PUnary(toks, i+1) IN IF u.ok THEN PTermTail(toks, u.i, Apply(toks[i].c, acc, u.v)) ELSE Fail
   ELSE [ok |-> TRUE, v |-> acc, i |-> i]
PUnary(toks, i) ==
   IF IsOp(toks, i, {"-"}) THEN LET u == PUnary(toks, i+1) IN IF u.ok THEN [u EXCEPT !.v = QNeg(u.v)] ELSE Fail
   ELSE IF IsOp(toks, i, {"+"}) THEN PUnary(toks, i+1)
   ELSE PPrimary(toks, i)
PPrimary(toks, i) ==
   IF i > Len(toks) THEN Fail
   ELSE IF toks[i].k = "num" THEN [ok |-> TRUE, v |-> Norm(toks[i].v), i |-> i+1]
   ELSE IF toks[i].k = "lp" THEN
        LET e == PExpr(toks, i+1) IN
        IF e.ok /\ e.i <= Len(toks) /\ toks[e.i].k = "rp" THEN [e EXCEPT !.i = e.i + 1] ELSE Fail
   ELSE Fail

EvalLine(toks) == LET e == PExpr(toks, 1) IN IF e.ok /\ e.i = Len(toks) + 1 THEN [ok |-> TRUE, v |-> e.v] ELSE [ok |-> FALSE, v |-> <<0,1>>]
====
