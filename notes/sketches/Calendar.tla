---- MODULE Calendar ----
EXTENDS Integers, TLC
Leap(y) == (y % 4 = 0 /\ y % 100 # 0) \/ y % 400 = 0
DaysIn(y, m) == IF m = 2 THEN (IF Leap(y) THEN 29 ELSE 28) ELSE IF m \in {4,6,9,11} THEN 30 ELSE 31
Valid(y, m, d) == m \in 1..12 /\ d >= 1 /\ d <= DaysIn(y, m)
\* days since 1970-01-01 (Howard Hinnant's algorithm, all operands non-negative for y >= 1)
DaysFromCivil(y0, m, d) ==
   LET y == IF m <= 2 THEN y0 - 1 ELSE y0
       era == y \div 400
       yoe == y - era * 400
       mp == (m + 9) % 12
       doy == (153 * mp + 2) \div 5 + d - 1
       doe == yoe * 365 + yoe \div 4 - yoe \div 100 + doy
   IN era * 146097 + doe - 719468
CivilFromDays(z0) ==
   LET z == z0 + 719468
       era == z \div 146097
       doe == z - era * 146097
       yoe == (doe - doe \div 1460 + doe \div 36524 - doe \div 146096) \div 365
       y == yoe + era * 400
       doy == doe - (365 * yoe + yoe \div 4 - yoe \div 100)
       mp == (5 * doy + 2) \div 153
       d == doy - (153 * mp + 2) \div 5 + 1
       m == IF mp < 10 THEN mp + 3 ELSE mp - 9
   IN <<IF m <= 2 THEN y + 1 ELSE y, m, d>>
AddMonths(y, m, d, n) == LET t == y * 12 + (m - 1) + n IN <<t \div 12, (t % 12) + 1, d>>
VARIABLE day
Lo == DaysFromCivil(1, 1, 1)
Hi == DaysFromCivil(9999, 12, 31)
Init == day \in Lo..Hi
Next == UNCHANGED day
RoundTrip == LET c == CivilFromDays(day) IN Valid(c[1], c[2], c[3]) /\ DaysFromCivil(c[1], c[2], c[3]) = day
Succ == day < Hi => LET a == CivilFromDays(day) b == CivilFromDays(day + 1) IN
          \/ (b[1] = a[1] /\ b[2] = a[2] /\ b[3] = a[3] + 1)
          \/ (b[1] = a[1] /\ b[2] = a[2] + 1 /\ b[3] = 1 /\ a[3] = DaysIn(a[1], a[2]))
          \/ (b[1] = a[1] + 1 /\ b[2] = 1 /\ b[3] = 1 /\ a[2] = 12 /\ a[3] = 31)
====
