---- MODULE TraceFmt ----
EXTENDS NumFormat, Json, IOUtils, FiniteSets
Rec == ndJsonDeserialize(IOEnv.TRACE)
VARIABLES l, bad
Init == l = 1 /\ bad = {}
Next == /\ l <= Len(Rec)
        /\ LET r == Rec[l] IN
             bad' = IF r.out \in Formats(r.v, r.cfg) THEN bad ELSE bad \cup {l}
        /\ l' = l + 1
Spec == Init /\ [][Next]_<<l, bad>>
Done == l = Len(Rec) + 1
Report == Done => PrintT(<<"BAD", bad>>)
Accepted == TLCGet("stats").diameter - 1 = Len(Rec)
====
