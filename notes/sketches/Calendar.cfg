INIT Init
NEXT Next
INVARIANT RoundTrip
INVARIANT Succ
CHECK_DEADLOCK FALSE
