---- MODULE GenArith ----
EXTENDS Integers, Sequences, TLC, Json, FiniteSets

Lits == {<<2,1>>, <<3,1>>, <<1,2>>}
Ops == {"+","-","*","/"}

RECURSIVE Gcd(_,_)
Gcd(a,b) == IF b = 0 THEN a ELSE Gcd(b, a % b)
Abs(x) == IF x < 0 THEN -x ELSE x
Norm(q) == IF q[1] = 0 THEN <<0,1>> ELSE
           LET g == Gcd(Abs(q[1]), Abs(q[2])) s == IF q[2] < 0 THEN -1 ELSE 1
           IN <<(s * q[1]) \div g, (s * q[2]) \div g>>
QAdd(a,b) == Norm(<<a[1]*b[2] + b[1]*a[2], a[2]*b[2]>>)
QSub(a,b) == Norm(<<a[1]*b[2] - b[1]*a[2], a[2]*b[2]>>)
QMul(a,b) == Norm(<<a[1]*b[1], a[2]*b[2]>>)
QDiv(a,b) == IF b[1] = 0 THEN <<0,1>> ELSE Norm(<<a[1]*b[2], a[2]*b[1]>>)
Apply(op,a,b) == CASE op = "+" -> QAdd(a,b) [] op = "-" -> QSub(a,b) [] op = "*" -> QMul(a,b) [] op = "/" -> QDiv(a,b)

T0 == {[t |-> "lit", v |-> l] : l \in Lits}
Step(S) == S \cup {[t |-> "bin", op |-> o, l |-> a, r |-> b] : o \in Ops, a \in S, b \in S}
             \cup {[t |-> "par", e |-> a] : a \in S}
T1 == Step(T0)
T2 == Step(T1)

RECURSIVE Eval(_)
Eval(e) == CASE e.t = "lit" -> e.v
             [] e.t = "par" -> Eval(e.e)
             [] e.t = "bin" -> Apply(e.op, Eval(e.l), Eval(e.r))

Prec(o) == IF o \in {"*","/"} THEN 2 ELSE 1
RECURSIVE Unparse(_,_,_)
\* ctx: minimal precedence required, right: whether right operand
Unparse(e, p, right) ==
  CASE e.t = "lit" -> <<[k |-> "num", v |-> e.v]>>
    [] e.t = "par" -> <<[k |-> "lp"]>> \o Unparse(e.e, 0, FALSE) \o <<[k |-> "rp"]>>
    [] e.t = "bin" -> LET need == Prec(e.op) < p \/ (right /\ Prec(e.op) = p)
                          inner == Unparse(e.l, Prec(e.op), FALSE) \o <<[k |-> "op", c |-> e.op]>> \o Unparse(e.r, Prec(e.op), TRUE)
                      IN IF need THEN <<[k |-> "lp"]>> \o inner \o <<[k |-> "rp"]>> ELSE inner

VARIABLE e
Init == e \in T2
Next == UNCHANGED e
Emit == PrintT(<<"VEC", ToJson([toks |-> Unparse(e, 0, FALSE), val |-> Eval(e)])>>)
Inv == Emit
====
