// scv: executor + projector for smartcalc.
//
//   scv worker                         reads one JSON case per line on stdin, answers one "@@"-prefixed
//                                      JSON observation per line on stdout
//   scv run IN OUT [JOBS] [TIMEOUT_S]  feeds the cases of file IN to JOBS worker processes, writes the
//                                      observations (input order) to OUT; a worker that dies or does not
//                                      answer in time is itself an observation (crash / hang)
//
// The harness knows nothing about properties: it applies public API calls and projects what they return
// into JSON (see DESIGN.md Appendix C). Rendering, comparison and triage live in the Python driver,
// the meaning of a line lives in the TLA+ specification.

mod project;
mod rules;
mod worker;
mod pool;

fn main() {
    let args: Vec<String> = std::env::args().collect();
    match args.get(1).map(|s| s.as_str()) {
        Some("worker") => worker::main(),
        Some("run") => {
            let inp = args.get(2).expect("IN");
            let out = args.get(3).expect("OUT");
            let jobs: usize = args.get(4).and_then(|s| s.parse().ok()).unwrap_or(8);
            let timeout: u64 = args.get(5).and_then(|s| s.parse().ok()).unwrap_or(20);
            let max_hangs: usize = args.get(6).and_then(|s| s.parse().ok()).unwrap_or(24);
            std::process::exit(pool::run(inp, out, jobs, timeout, max_hangs));
        }
        _ => {
            eprintln!("usage: scv worker | scv run IN OUT [JOBS] [TIMEOUT_S]");
            std::process::exit(2);
        }
    }
}
