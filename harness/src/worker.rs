// One worker process: applies the API calls of each case to the real library and prints the projection.

use crate::project;
use crate::rules::{CallLog, ParamRule};
use serde_json::{json, Map, Value};
use smartcalc::{Session, SmartCalc};
use std::cell::RefCell;
use std::collections::BTreeMap;
use std::io::{BufRead, Write};
use std::ops::Deref;
use std::panic::{catch_unwind, AssertUnwindSafe};
use std::rc::Rc;

struct Nop;
impl log::Log for Nop {
    fn enabled(&self, _: &log::Metadata) -> bool {
        false
    }
    fn log(&self, _: &log::Record) {}
    fn flush(&self) {}
}
static NOP: Nop = Nop;

// SCV_LOGGER=1: a logger at Debug level that formats every record and throws it away - the arguments of the library's log
// statements are then evaluated, as they are in an application that called SmartCalc::initialize()
struct Sink;
impl log::Log for Sink {
    fn enabled(&self, _: &log::Metadata) -> bool {
        true
    }
    fn log(&self, record: &log::Record) {
        let _ = format!("{}", record.args());
    }
    fn flush(&self) {}
}
static SINK: Sink = Sink;

thread_local! {
    static LAST_PANIC: RefCell<Option<(String, String)>> = RefCell::new(None);
}

fn today() -> i64 {
    let s = std::time::SystemTime::now().duration_since(std::time::UNIX_EPOCH).map(|d| d.as_secs() as i64).unwrap_or(0);
    s.div_euclid(86400)
}

struct State {
    calc: Option<SmartCalc>,
    calc2: Option<SmartCalc>, // a second calculator alive in the same process (cases with "two": true; steps with "calc": 2)
    dirty: bool,
    sessions: BTreeMap<String, Session>,
    log: CallLog,
}

fn s<'a>(v: &'a Value, k: &str) -> &'a str {
    v[k].as_str().unwrap_or("")
}

fn b(v: &Value, d: bool) -> bool {
    v.as_bool().unwrap_or(d)
}

fn apply_cfg(calc: &mut SmartCalc, cfg: &Value) -> Value {
    let dec = cfg["dec"].as_str().unwrap_or(",");
    let tho = cfg["tho"].as_str().unwrap_or(".");
    calc.set_decimal_seperator(dec.to_string());
    calc.set_thousand_separator(tho.to_string());
    let num = &cfg["num"];
    calc.set_number_configuration(num[0].as_u64().unwrap_or(2) as u8, b(&num[1], true), b(&num[2], true));
    let pct = &cfg["pct"];
    calc.set_percentage_configuration(pct[0].as_u64().unwrap_or(2) as u8, b(&pct[1], true), b(&pct[2], true));
    let mon = &cfg["mon"];
    calc.set_money_configuration(b(&mon[0], false), b(&mon[1], true));
    let tz = cfg["tz"].as_str().unwrap_or("UTC");
    match calc.set_timezone(tz.to_string()) {
        Ok(()) => Value::Null,
        Err(e) => json!(e),
    }
}

fn slot(line: &smartcalc_line::Line, want: &Want) -> Value {
    line.project(want)
}

// ExecuteLine / ExecuteResult are not nameable from outside the crate (their module is private), so the
// projection is written against the values through a small generic shim.
mod smartcalc_line {
    use super::*;
    pub struct Line<'a> {
        pub result: Option<(&'a String, &'a smartcalc::SmartCalcAstType)>,
        pub error: Option<&'a String>,
        pub ui: &'a Vec<smartcalc::UiToken>,
        pub raw: &'a Vec<Rc<smartcalc::TokenType>>,
    }
    impl<'a> Line<'a> {
        pub fn project(&self, want: &Want) -> Value {
            let mut o = Map::new();
            match (&self.result, &self.error) {
                (Some((out, ast)), _) => {
                    o.insert("ok".into(), json!(true));
                    o.insert("out".into(), json!(out));
                    o.insert("val".into(), project::ast(ast, want.dec));
                }
                (None, Some(e)) => {
                    o.insert("ok".into(), json!(false));
                    o.insert("err".into(), json!(e));
                }
                _ => {}
            }
            if want.ui {
                let ui: Vec<Value> = self.ui.iter().map(|t| json!([t.start, t.end, format!("{:?}", t.ui_type)])).collect();
                o.insert("ui".into(), json!(ui));
            }
            if want.raw {
                let raw: Vec<Value> = self.raw.iter().map(|t| project::token(t.deref(), false)).collect();
                o.insert("raw".into(), json!(raw));
            }
            Value::Object(o)
        }
    }
}

#[derive(Default, Clone, Copy)]
pub struct Want {
    pub dec: bool,
    pub ui: bool,
    pub raw: bool,
    pub rules: bool,
}

// the rule engine's steps recorded by the cfg(smartcalc_verif) hook of the library, as JSON
fn rule_log() -> Value {
    let tok = |t: &(String, String)| json!([t.0, t.1]);
    let mut out: Vec<Value> = Vec::new();
    for e in smartcalc::verif::take() {
        out.push(match e {
            smartcalc::verif::RuleEvent::Start(ts) => json!({"e": "start", "toks": ts.iter().map(tok).collect::<Vec<_>>()}),
            smartcalc::verif::RuleEvent::Refuse(r) => json!({"e": "refuse", "rule": r}),
            smartcalc::verif::RuleEvent::Apply(r, ts) => json!({"e": "apply", "rule": r, "toks": ts.iter().map(tok).collect::<Vec<_>>()}),
            smartcalc::verif::RuleEvent::Done => json!({"e": "done"}),
            smartcalc::verif::RuleEvent::Claim(s, t, ok) => json!({"e": "claim", "s": s, "t": t, "ok": ok}),
            smartcalc::verif::RuleEvent::Scan(n) => json!({"e": "scan", "n": n}),
        });
    }
    Value::Array(out)
}

macro_rules! project_result {
    ($r:expr, $want:expr) => {{
        let r = $r;
        let mut lines: Vec<Value> = Vec::new();
        for l in r.lines.iter() {
            match l {
                None => lines.push(Value::Null),
                Some(line) => {
                    let pl = match &line.result {
                        Ok(res) => smartcalc_line::Line { result: Some((&res.output, res.ast.deref())), error: None, ui: &line.ui_tokens, raw: &line.raw_tokens },
                        Err(e) => smartcalc_line::Line { result: None, error: Some(e), ui: &line.ui_tokens, raw: &line.raw_tokens },
                    };
                    lines.push(slot(&pl, $want));
                }
            }
        }
        json!({"status": r.status, "lines": lines})
    }};
}

fn first_output(prev: &Value, step: usize, line: usize) -> Option<String> {
    prev.get(step)?.get("res")?.get("lines")?.get(line)?.get("out")?.as_str().map(|x| x.to_string())
}

fn do_step(st: &mut State, step: &Value, want: &Want, prev: &Vec<Value>) -> Value {
    let op = s(step, "op");
    let prevv = Value::Array(prev.clone());
    let State { calc, calc2, dirty, sessions, log } = st;
    let calc = if step["calc"].as_u64() == Some(2) {
        match calc2.as_mut() {
            Some(c) => c,
            None => return json!({"outcome": "toolerror", "why": "no second calculator in this case"}),
        }
    } else {
        calc.as_mut().unwrap()
    };
    match op {
        "execute" => {
            let text = if step.get("text_from").is_some() {
                let k = step["text_from"][0].as_u64().unwrap_or(0) as usize;
                let l = step["text_from"][1].as_u64().unwrap_or(0) as usize;
                match first_output(&prevv, k, l) {
                    Some(t) => t,
                    None => return json!({"outcome": "skipped", "why": "no output to feed back"}),
                }
            } else {
                s(step, "text").to_string()
            };
            if want.rules {
                smartcalc::verif::enable(true);
                let _ = smartcalc::verif::take();
            }
            let r = calc.execute(s(step, "lang"), text.as_str());
            let mut v = json!({"outcome": "returned", "text": text, "res": project_result!(r, want)});
            if want.rules {
                v["rules"] = rule_log();
                smartcalc::verif::enable(false);
            }
            v
        }
        "session_new" => {
            sessions.insert(s(step, "s").to_string(), Session::new());
            json!({"outcome": "returned"})
        }
        "set_language" => match sessions.get_mut(s(step, "s")) {
            Some(x) => {
                x.set_language(s(step, "lang").to_string());
                json!({"outcome": "returned"})
            }
            None => json!({"outcome": "toolerror", "why": "no session"}),
        },
        "set_text" => match sessions.get_mut(s(step, "s")) {
            Some(x) => {
                x.set_text(s(step, "text").to_string());
                json!({"outcome": "returned"})
            }
            None => json!({"outcome": "toolerror", "why": "no session"}),
        },
        "execute_session" => match sessions.get(s(step, "s")) {
            Some(x) => {
                let r = calc.execute_session(x);
                json!({"outcome": "returned", "res": project_result!(r, want)})
            }
            None => json!({"outcome": "toolerror", "why": "no session"}),
        },
        "set_dec" => {
            calc.set_decimal_seperator(s(step, "v").to_string());
            json!({"outcome": "returned"})
        }
        "set_tho" => {
            calc.set_thousand_separator(s(step, "v").to_string());
            json!({"outcome": "returned"})
        }
        "set_num" => {
            calc.set_number_configuration(step["d"].as_u64().unwrap_or(2) as u8, b(&step["remove"], true), b(&step["round"], true));
            json!({"outcome": "returned"})
        }
        "set_pct" => {
            calc.set_percentage_configuration(step["d"].as_u64().unwrap_or(2) as u8, b(&step["remove"], true), b(&step["round"], true));
            json!({"outcome": "returned"})
        }
        "set_mon" => {
            calc.set_money_configuration(b(&step["remove"], false), b(&step["round"], true));
            json!({"outcome": "returned"})
        }
        "set_tz" => {
            let r = calc.set_timezone(s(step, "v").to_string());
            let o = calc.get_time_offset();
            json!({"outcome": "returned", "ret": r.is_ok(), "tz": {"name": o.name, "off": o.offset}})
        }
        "set_date_rule" => {
            // the default date patterns of the language once more: registering them again changes nothing
            *dirty = true;
            let pats: Vec<String> = step["patterns"].as_array().map(|a| a.iter().map(|x| x.as_str().unwrap_or("").to_string()).collect()).unwrap_or_default();
            calc.set_date_rule(s(step, "lang"), pats);
            json!({"outcome": "returned"})
        }
        "get_tz" => {
            let o = calc.get_time_offset();
            json!({"outcome": "returned", "tz": {"name": o.name, "off": o.offset}})
        }
        "update_currency" => {
            *dirty = true;
            let r = calc.update_currency(s(step, "cur"), step["rate"].as_f64().unwrap_or(1.0));
            json!({"outcome": "returned", "ret": r})
        }
        "add_rule" => {
            *dirty = true;
            let pats: Vec<String> = step["patterns"].as_array().map(|a| a.iter().map(|x| x.as_str().unwrap_or("").to_string()).collect()).unwrap_or_default();
            let rule = Rc::new(ParamRule { name: s(step, "name").to_string(), behaviour: step["behaviour"].clone(), log: log.clone() });
            let r = calc.add_rule(s(step, "lang").to_string(), pats, rule);
            json!({"outcome": "returned", "ret": r})
        }
        "delete_rule" => {
            *dirty = true;
            let r = calc.delete_rule(s(step, "lang").to_string(), s(step, "name").to_string());
            json!({"outcome": "returned", "ret": r})
        }
        "set_date_rule" => {
            *dirty = true;
            let pats: Vec<String> = step["patterns"].as_array().map(|a| a.iter().map(|x| x.as_str().unwrap_or("").to_string()).collect()).unwrap_or_default();
            calc.set_date_rule(s(step, "lang"), pats);
            json!({"outcome": "returned"})
        }
        "add_type" => {
            *dirty = true;
            let r = calc.add_dynamic_type(s(step, "name"));
            json!({"outcome": "returned", "ret": r})
        }
        "add_type_item" => {
            *dirty = true;
            let parse: Vec<&str> = step["parse"].as_array().map(|a| a.iter().map(|x| x.as_str().unwrap_or("")).collect()).unwrap_or_default();
            let names: Vec<String> = step["names"].as_array().map(|a| a.iter().map(|x| x.as_str().unwrap_or("").to_string()).collect()).unwrap_or_default();
            let r = calc.add_dynamic_type_item(
                s(step, "name"),
                step["index"].as_u64().unwrap_or(0) as usize,
                s(step, "format"),
                parse,
                s(step, "up"),
                s(step, "down"),
                names,
                step["digits"].as_u64().map(|x| x as u8),
                step["round"].as_bool(),
                step["remove"].as_bool(),
            );
            json!({"outcome": "returned", "ret": r})
        }
        _ => json!({"outcome": "toolerror", "why": format!("unknown op {}", op)}),
    }
}

fn run_case(st: &mut State, case: &Value) -> Value {
    let id = case["id"].clone();
    let fresh = b(&case["fresh"], false);
    let day0 = today();
    if fresh || st.dirty || st.calc.is_none() {
        st.calc = None;
        st.dirty = false;
        match catch_unwind(|| SmartCalc::default()) {
            Ok(c) => st.calc = Some(c),
            Err(_) => return json!({"id": id, "outcome": "toolerror", "why": "SmartCalc::default panicked"}),
        }
    }
    if fresh {
        st.dirty = true; // a case that asked for a private calculator does not hand it on
    }
    st.calc2 = None;
    if b(&case["two"], false) {
        match catch_unwind(|| SmartCalc::default()) {
            Ok(c) => st.calc2 = Some(c),
            Err(_) => return json!({"id": id, "outcome": "toolerror", "why": "SmartCalc::default panicked"}),
        }
    }
    st.sessions.clear();
    st.log.borrow_mut().clear();
    let mut want = Want::default();
    if let Some(a) = case["want"].as_array() {
        for w in a {
            match w.as_str().unwrap_or("") {
                "dec" => want.dec = true,
                "ui" => want.ui = true,
                "raw" => want.raw = true,
                "rules" => want.rules = true,
                _ => {}
            }
        }
    }
    let cfg_err = {
        let calc = st.calc.as_mut().unwrap();
        match catch_unwind(AssertUnwindSafe(|| apply_cfg(calc, &case["cfg"]))) {
            Ok(v) => v,
            Err(_) => {
                st.calc = None;
                return json!({"id": id, "outcome": "panic", "where": "cfg", "panic": take_panic()});
            }
        }
    };
    if let Some(c2) = st.calc2.as_mut() {
        if catch_unwind(AssertUnwindSafe(|| apply_cfg(c2, &case["cfg"]))).is_err() {
            st.calc2 = None;
            return json!({"id": id, "outcome": "panic", "where": "cfg", "panic": take_panic()});
        }
    }
    let mut out: Vec<Value> = Vec::new();
    let empty = Vec::new();
    let steps = case["steps"].as_array().unwrap_or(&empty);
    let mut dead = false;
    for step in steps {
        if dead {
            out.push(json!({"outcome": "skipped", "why": "earlier panic"}));
            continue;
        }
        let r = catch_unwind(AssertUnwindSafe(|| do_step(st, step, &want, &out)));
        let mut v = match r {
            Ok(v) => v,
            Err(_) => {
                dead = true;
                st.dirty = true;
                json!({"outcome": "panic", "panic": take_panic()})
            }
        };
        let calls: Vec<Value> = st.log.borrow_mut().drain(..).collect();
        if !calls.is_empty() {
            v["rule_calls"] = json!(calls);
        }
        out.push(v);
    }
    if dead {
        st.calc = None;
        st.sessions.clear();
    }
    let day1 = today();
    json!({"id": id, "outcome": "done", "cfg_err": cfg_err, "steps": out, "day0": day0, "day1": day1})
}

fn take_panic() -> Value {
    LAST_PANIC.with(|p| match p.borrow_mut().take() {
        Some((loc, msg)) => json!({"loc": loc, "msg": msg}),
        None => json!({"loc": "?", "msg": "?"}),
    })
}

pub fn main() {
    if std::env::var("SCV_LOGGER").map(|v| v == "1").unwrap_or(false) {
        let _ = log::set_logger(&SINK);
        log::set_max_level(log::LevelFilter::Debug);
    } else {
        let _ = log::set_logger(&NOP);
        log::set_max_level(log::LevelFilter::Off);
    }
    std::panic::set_hook(Box::new(|info| {
        let loc = info.location().map(|l| format!("{}:{}", l.file(), l.line())).unwrap_or_else(|| "?".into());
        let msg = if let Some(s) = info.payload().downcast_ref::<&str>() {
            s.to_string()
        } else if let Some(s) = info.payload().downcast_ref::<String>() {
            s.clone()
        } else {
            "?".to_string()
        };
        LAST_PANIC.with(|p| *p.borrow_mut() = Some((loc, msg)));
    }));
    let mut st = State { calc: None, calc2: None, dirty: false, sessions: BTreeMap::new(), log: Rc::new(RefCell::new(Vec::new())) };
    let stdin = std::io::stdin();
    let stdout = std::io::stdout();
    for line in stdin.lock().lines() {
        let line = match line {
            Ok(l) => l,
            Err(_) => break,
        };
        if line.trim().is_empty() {
            continue;
        }
        let obs = match serde_json::from_str::<Value>(&line) {
            Ok(case) => run_case(&mut st, &case),
            Err(e) => json!({"outcome": "toolerror", "why": format!("bad case json: {}", e)}),
        };
        if !std::env::var("SCV_LOGGER").map(|v| v == "1").unwrap_or(false) {
            log::set_max_level(log::LevelFilter::Off);
        }
        let mut o = stdout.lock();
        let _ = writeln!(o, "@@{}", obs);
        let _ = o.flush();
    }
}
