// Projection of smartcalc's observable values into JSON. Part of the trusted base; kept dumb:
// no rounding, no interpretation. f64 values are printed by serde_json (shortest round-trip form).

use chrono::{NaiveDate, NaiveDateTime};
use serde_json::{json, Value};
use smartcalc::{NumberType, SmartCalcAstType, TokenType};
use std::ops::Deref;

pub fn f64_json(v: f64) -> Value {
    if v.is_finite() {
        json!(v)
    } else if v.is_nan() {
        json!("nan")
    } else if v > 0.0 {
        json!("inf")
    } else {
        json!("-inf")
    }
}

/// exact decimal expansion of a finite f64 (Rust's {:.N} formatting is exact), trailing zeros trimmed
pub fn exact_decimal(v: f64) -> String {
    if !v.is_finite() {
        return "nonfinite".to_string();
    }
    let s = format!("{:.1080}", v);
    let t = s.trim_end_matches('0');
    let t = t.trim_end_matches('.');
    t.to_string()
}

fn days(d: &NaiveDate) -> i64 {
    d.signed_duration_since(NaiveDate::from_ymd_opt(1970, 1, 1).unwrap()).num_days()
}

fn ts(d: &NaiveDateTime) -> i64 {
    d.and_utc().timestamp()
}

fn nt(n: &NumberType) -> &'static str {
    match n {
        NumberType::Decimal => "dec",
        NumberType::Octal => "oct",
        NumberType::Hexadecimal => "hex",
        NumberType::Binary => "bin",
        NumberType::Raw => "raw",
    }
}

pub fn token(t: &TokenType, want_dec: bool) -> Value {
    let mut v = match t {
        TokenType::Number(x, n) => json!({"k": "num", "f": f64_json(*x), "nt": nt(n)}),
        TokenType::Percent(x) => json!({"k": "pct", "f": f64_json(*x)}),
        TokenType::Money(x, c) => json!({"k": "money", "f": f64_json(*x), "cur": c.code.to_lowercase()}),
        TokenType::DynamicType(x, d) => {
            json!({"k": "unit", "f": f64_json(*x), "group": d.group_name, "index": d.index})
        }
        TokenType::Duration(d) => json!({"k": "dur", "secs": d.num_seconds(), "nanos": d.subsec_nanos()}),
        TokenType::Date(d, z) => json!({"k": "date", "days": days(d), "off": z.offset, "zone": z.name}),
        TokenType::Time(d, z) => json!({"k": "time", "ts": ts(d), "off": z.offset, "zone": z.name}),
        TokenType::DateTime(d, z) => json!({"k": "datetime", "ts": ts(d), "off": z.offset, "zone": z.name}),
        TokenType::Text(s) => json!({"k": "text", "s": s}),
        TokenType::Operator(c) => json!({"k": "op", "c": c.to_string()}),
        TokenType::Month(m) => json!({"k": "month", "m": m}),
        TokenType::Timezone(n, o) => json!({"k": "zone", "zone": n, "off": o}),
        TokenType::Variable(v) => json!({"k": "var", "name": v.to_string()}),
        TokenType::Field(f) => json!({"k": "field", "type": f.type_name()}),
    };
    if want_dec {
        let x = match t {
            TokenType::Number(x, _) | TokenType::Percent(x) | TokenType::Money(x, _) | TokenType::DynamicType(x, _) => Some(*x),
            _ => None,
        };
        if let Some(x) = x {
            v["dec"] = json!(exact_decimal(x));
        }
    }
    v
}

pub fn ast(a: &SmartCalcAstType, want_dec: bool) -> Value {
    match a {
        SmartCalcAstType::Item(item) => token(&item.as_token_type(), want_dec),
        SmartCalcAstType::None => json!({"k": "none"}),
        SmartCalcAstType::Month(m) => json!({"k": "month", "m": m}),
        SmartCalcAstType::Symbol(s) => json!({"k": "symbol", "s": s}),
        SmartCalcAstType::Variable(v) => {
            let inner = v.data.borrow().clone();
            ast(inner.deref(), want_dec)
        }
        other => json!({"k": "other", "type": other.type_name()}),
    }
}
