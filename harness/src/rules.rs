// Parameterised RuleTrait objects for C18. The behaviour record is chosen by the specification
// (Registry.tla); this file only interprets it.
//
//   {"kind":"num","value":x}                         -> Number(x)
//   {"kind":"num_from","field":f,"mul":m,"add":a}    -> Number(fields[f] * m + a)   (declines if f is not a number)
//   {"kind":"money_from","field":f,"cur":c}          -> Money(fields[f], currency c)
//   {"kind":"pct_from","field":f}                    -> Percent(fields[f])
//   {"kind":"guard","field":f,"equals":w,"then":b}   -> behaviour b if fields[f] is the text w (case-insensitive), else declines
//   {"kind":"decline"}                               -> None
//
// Every call is logged (rule name + projected fields) into a shared log that the worker drains per step.

use crate::project;
use serde_json::{json, Value};
use smartcalc::{NumberType, RuleTrait, SmartCalcConfig, TokenType};
use std::cell::RefCell;
use std::collections::BTreeMap;
use std::rc::Rc;

pub type CallLog = Rc<RefCell<Vec<Value>>>;

pub struct ParamRule {
    pub name: String,
    pub behaviour: Value,
    pub log: CallLog,
}

fn num_field(fields: &BTreeMap<String, TokenType>, f: &str) -> Option<f64> {
    match fields.get(f) {
        Some(TokenType::Number(x, _)) => Some(*x),
        _ => None,
    }
}

fn apply(b: &Value, config: &SmartCalcConfig, fields: &BTreeMap<String, TokenType>) -> Option<TokenType> {
    match b["kind"].as_str().unwrap_or("") {
        "num" => Some(TokenType::Number(b["value"].as_f64()?, NumberType::Decimal)),
        "num_from" => {
            let x = num_field(fields, b["field"].as_str()?)?;
            let m = b["mul"].as_f64().unwrap_or(1.0);
            let a = b["add"].as_f64().unwrap_or(0.0);
            Some(TokenType::Number(x * m + a, NumberType::Decimal))
        }
        "money_from" => {
            let x = num_field(fields, b["field"].as_str()?)?;
            let cur = config.get_currency(b["cur"].as_str()?.to_string())?;
            Some(TokenType::Money(x, cur))
        }
        "pct_from" => Some(TokenType::Percent(num_field(fields, b["field"].as_str()?)?)),
        "guard" => match fields.get(b["field"].as_str()?) {
            Some(TokenType::Text(t)) if t.to_lowercase() == b["equals"].as_str()?.to_lowercase() => apply(&b["then"], config, fields),
            _ => None,
        },
        _ => None,
    }
}

impl RuleTrait for ParamRule {
    fn name(&self) -> String {
        self.name.clone()
    }
    fn call(&self, config: &SmartCalcConfig, fields: &BTreeMap<String, TokenType>) -> Option<TokenType> {
        let mut f = serde_json::Map::new();
        for (k, v) in fields.iter() {
            f.insert(k.clone(), project::token(v, false));
        }
        let r = apply(&self.behaviour, config, fields);
        self.log.borrow_mut().push(json!({"rule": self.name, "fields": Value::Object(f), "accepted": r.is_some()}));
        r
    }
}
