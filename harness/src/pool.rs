// Parent side: a pool of worker processes with crash and hang detection.

use serde_json::{json, Value};
use std::io::{BufRead, BufReader, Write};
use std::process::{Child, ChildStdin, Command, Stdio};
use std::sync::atomic::{AtomicUsize, Ordering};
use std::sync::mpsc::{channel, Receiver, RecvTimeoutError};
use std::sync::{Arc, Mutex};
use std::time::Duration;

struct Worker {
    child: Child,
    stdin: ChildStdin,
    rx: Receiver<String>,
}

fn spawn() -> Worker {
    let exe = std::env::current_exe().expect("current_exe");
    let mut child = Command::new(exe)
        .arg("worker")
        .stdin(Stdio::piped())
        .stdout(Stdio::piped())
        .stderr(Stdio::null())
        .spawn()
        .expect("spawn worker");
    let stdin = child.stdin.take().unwrap();
    let stdout = child.stdout.take().unwrap();
    let (tx, rx) = channel();
    std::thread::spawn(move || {
        let r = BufReader::new(stdout);
        for line in r.lines() {
            match line {
                Ok(l) => {
                    if let Some(rest) = l.strip_prefix("@@") {
                        if tx.send(rest.to_string()).is_err() {
                            break;
                        }
                    }
                }
                Err(_) => break,
            }
        }
    });
    Worker { child, stdin, rx }
}

fn case_id(line: &str) -> Value {
    serde_json::from_str::<Value>(line).map(|v| v["id"].clone()).unwrap_or(Value::Null)
}

// max_hangs: once that many cases have hung, the remaining cases are not started (outcome "skipped", why "too many hangs"):
// the run has already shown non-termination, and every further hang would cost a full timeout
pub fn run(inp: &str, out: &str, jobs: usize, timeout_s: u64, max_hangs: usize) -> i32 {
    let text = match std::fs::read_to_string(inp) {
        Ok(t) => t,
        Err(e) => {
            eprintln!("scv: cannot read {}: {}", inp, e);
            return 2;
        }
    };
    let cases: Arc<Vec<String>> = Arc::new(text.lines().filter(|l| !l.trim().is_empty()).map(|l| l.to_string()).collect());
    let n = cases.len();
    let next = Arc::new(AtomicUsize::new(0));
    let hangs = Arc::new(AtomicUsize::new(0));
    let results: Arc<Mutex<Vec<Option<String>>>> = Arc::new(Mutex::new(vec![None; n]));
    let mut handles = Vec::new();
    for _ in 0..jobs.max(1).min(n.max(1)) {
        let cases = cases.clone();
        let next = next.clone();
        let hangs = hangs.clone();
        let results = results.clone();
        handles.push(std::thread::spawn(move || {
            let mut w = spawn();
            let mut local: Vec<(usize, String)> = Vec::new();
            loop {
                let i = next.fetch_add(1, Ordering::SeqCst);
                if i >= cases.len() {
                    break;
                }
                let line = &cases[i];
                if hangs.load(Ordering::SeqCst) >= max_hangs {
                    local.push((i, json!({"id": case_id(line), "outcome": "skipped", "why": "too many hangs"}).to_string()));
                    continue;
                }
                let sent = writeln!(w.stdin, "{}", line).and_then(|_| w.stdin.flush());
                let obs: String = if sent.is_err() {
                    let _ = w.child.kill();
                    let st = w.child.wait().ok();
                    w = spawn();
                    json!({"id": case_id(line), "outcome": "crash", "status": format!("{:?}", st)}).to_string()
                } else {
                    match w.rx.recv_timeout(Duration::from_secs(timeout_s)) {
                        Ok(o) => o,
                        Err(RecvTimeoutError::Timeout) => {
                            hangs.fetch_add(1, Ordering::SeqCst);
                            let _ = w.child.kill();
                            let _ = w.child.wait();
                            w = spawn();
                            json!({"id": case_id(line), "outcome": "hang", "timeout_s": timeout_s}).to_string()
                        }
                        Err(RecvTimeoutError::Disconnected) => {
                            let st = w.child.wait().ok();
                            w = spawn();
                            json!({"id": case_id(line), "outcome": "crash", "status": format!("{:?}", st)}).to_string()
                        }
                    }
                };
                local.push((i, obs));
                if local.len() >= 256 {
                    let mut r = results.lock().unwrap();
                    for (i, o) in local.drain(..) {
                        r[i] = Some(o);
                    }
                }
            }
            let mut r = results.lock().unwrap();
            for (i, o) in local.drain(..) {
                r[i] = Some(o);
            }
            drop(w.stdin);
            let _ = w.child.kill();
            let _ = w.child.wait();
        }));
    }
    for h in handles {
        let _ = h.join();
    }
    let r = results.lock().unwrap();
    let mut f = match std::fs::File::create(out) {
        Ok(f) => std::io::BufWriter::new(f),
        Err(e) => {
            eprintln!("scv: cannot write {}: {}", out, e);
            return 2;
        }
    };
    for o in r.iter() {
        let _ = writeln!(f, "{}", o.clone().unwrap_or_else(|| json!({"outcome": "toolerror", "why": "missing"}).to_string()));
    }
    0
}
