"""Observation -> abstract slot (the value domain of spec/Meaning.tla). Trusted projection (DESIGN 4.3)."""
from vlib import float_to_q, float_to_qs, config_json

_unit_names = None


def unit_name(group, index):
    """canonical unit id = first configured name of (family, index)"""
    global _unit_names
    if _unit_names is None:
        _unit_names = {}
        for t in config_json().get("types", []):
            for it in t.get("items", []):
                _unit_names[(t["name"], it["index"])] = it["names"][0]
    return _unit_names.get((group, index), "%s#%d" % (group, index))


def qfield(v):
    f = v.get("f")
    if isinstance(f, str):
        return {"irr": True, "f": f}
    qs = float_to_qs(f)
    if not qs:
        return {"irr": True, "f": repr(f)}
    out = {"q": qs[0], "f": repr(f)}
    if len(qs) > 1:
        out["qs"] = qs
    return out


def split_secs(total):
    return total // 86400, total % 86400


def slot_of(line):
    """line: one element of res.lines of an observation"""
    if line is None:
        return {"k": "empty"}
    if not line.get("ok"):
        return {"k": "err", "msg": line.get("err", "")}
    v = line["val"]
    k = v["k"]
    out = {"k": k, "out": line.get("out", "")}
    if k in ("num", "pct"):
        out.update(qfield(v))
        if k == "num":
            out["nt"] = v.get("nt", "dec")
    elif k == "money":
        out.update(qfield(v))
        out["cur"] = v["cur"]
    elif k == "unit":
        out.update(qfield(v))
        out["u"] = unit_name(v["group"], v["index"])
        out["group"] = v["group"]
        out["index"] = v["index"]
    elif k == "dur":
        d, s = split_secs(v["secs"])
        out.update({"d": d, "s": s, "nanos": v.get("nanos", 0)})
    elif k == "date":
        out.update({"day": v["days"], "off": v["off"], "zone": v["zone"]})
    elif k == "time":
        out.update({"sod": v["ts"] % 86400, "off": v["off"], "zone": v["zone"]})
    elif k == "datetime":
        d, s = split_secs(v["ts"])
        out.update({"d": d, "s": s, "off": v["off"], "zone": v["zone"]})
    elif k == "none":
        out = {"k": "none", "out": line.get("out", "")}
    else:
        out = {"k": "other", "type": k, "out": line.get("out", "")}
    return out


def slots_of_step(step):
    """step observation -> (status, [slot]) or a failure record"""
    oc = step.get("outcome")
    if oc != "returned":
        return None
    res = step.get("res")
    if res is None:
        return None
    return res["status"], [slot_of(x) for x in res["lines"]]


def trace_slot(slot):
    """the part of a slot that goes into a TLC trace event (no floats, no free text)"""
    keep = ("k", "q", "qs", "irr", "cur", "u", "d", "s", "day", "sod", "off", "zone", "nt", "parts", "digits", "pr", "ts", "bits", "group", "index", "same_as_base")
    return {k: slot[k] for k in keep if k in slot}


# ---------------------------------------------------------------------------------------------
# printed durations -> parts [[count, unit, "one"|"many"], ...]  (table driven: the language's format table)
# ---------------------------------------------------------------------------------------------
import re

_dur_tables = {}


def _dur_table(lang):
    if lang not in _dur_tables:
        langs = config_json()["languages"]
        fmt = langs.get(lang, langs["en"]).get("format", {}).get("duration", [])
        ents = []
        units_with_one = set()
        for e in fmt:
            unit = e["duration_type"].lower()
            f = e["format"]
            one = e["count"].strip().isdigit()
            if one:
                units_with_one.add(unit)
            rx = re.escape(f)
            rx = re.sub(r"\\\{[a-z]+\\\}", r"(\\d+)", rx)
            ents.append((unit, one, int(e["count"]) if one else None, re.compile(rx)))
        _dur_tables[lang] = (ents, units_with_one)
    return _dur_tables[lang]


def duration_parts(out, lang):
    """'1 year 2 months' -> [[1,'year','one'],[2,'month','many']]; 'unparsed' when the text is not made of the
    language's own duration phrases. A language without a singular phrase for a unit has only one word for it:
    that word is reported as 'one' for count 1 (it is trivially the correct word)."""
    ents, with_one = _dur_table(lang)
    s = out.strip()
    parts = []
    while s:
        best = None
        for unit, one, cnt, rx in ents:
            m = rx.match(s)
            if m and (m.end() == len(s) or s[m.end()] == " "):
                n = cnt if one and not m.groups() else int(m.group(1)) if m.groups() else cnt
                cand = (m.end(), unit, one, n)
                if best is None or cand[0] > best[0] or (cand[0] == best[0] and one):
                    best = cand
        if best is None:
            return [[-1, "unparsed", "many"]]
        end, unit, one, n = best
        cls = "one" if one else "many"
        if unit not in with_one and n == 1:
            cls = "one"
        parts.append([n, unit, cls])
        s = s[end:].lstrip(" ")
    return parts


def time_printed(out):
    """'HH:MM:SS NAME' -> [wall second of day, name] or 'unparsed'"""
    m = re.match(r"^(\d\d):(\d\d):(\d\d) (\S+)$", out.strip())
    if not m:
        return [-1, "unparsed"]
    return [int(m.group(1)) * 3600 + int(m.group(2)) * 60 + int(m.group(3)), m.group(4)]


_date_fmt = {}


def date_printed(out, lang):
    """printed date -> [day, month, year or 0] with the language's own formats and month names, else 'unparsed'"""
    langs = config_json()["languages"]
    ld = langs.get(lang, langs["en"])
    if lang not in _date_fmt:
        fm = ld.get("format", {}).get("date", {})
        pats = []
        for key in ("full_date", "current_year"):
            f = fm.get(key)
            if not f:
                continue
            rx = re.escape(f)
            fields = re.findall(r"\\\{([a-z_]+)\\\}", rx)
            rx = re.sub(r"\\\{(day|year|day_pad)\\\}", r"(-?\\d+)", rx)
            rx = re.sub(r"\\\{(month_long|month_short)\\\}", r"(\\S+)", rx)
            pats.append((re.compile("^" + rx + "$"), fields))
        _date_fmt[lang] = pats
    for rx, fields in _date_fmt[lang]:
        m = rx.match(out.strip())
        if not m:
            continue
        vals = dict(zip(fields, m.groups()))
        mon = None
        for key, table in (("month_long", "long_months"), ("month_short", "short_months")):
            if key in vals:
                mon = ld.get(table, {}).get(vals[key].lower())
                if mon is None:
                    # Rust's uppercase_first_letter on a non-ASCII first letter: compare case-insensitively
                    for n, k in ld.get(table, {}).items():
                        if n.lower() == vals[key].lower() or n.upper() == vals[key].upper():
                            mon = k
        if mon is None:
            continue
        try:
            return [int(vals.get("day", vals.get("day_pad"))), mon, int(vals["year"]) if "year" in vals else 0]
        except Exception:
            continue
    return [-1, -1, -1]


def ts_split(x):
    return [x // 86400, x % 86400]


def datetime_printed(out, lang):
    """'1 Jan 2020 01:12:13 UTC' / '1 January 01:12:13 UTC' -> [day, month, year or 0, wall second of day, zone]"""
    m = re.match(r"^(.*?) (\d\d):(\d\d):(\d\d)(?: (\S+))?$", out.strip())
    if not m:
        return [-1, -1, -1, -1, "unparsed"]
    d = date_printed(m.group(1), lang)
    return d + [int(m.group(2)) * 3600 + int(m.group(3)) * 60 + int(m.group(4)), m.group(5) or ""]


def int_bits(f):
    """exact non-negative integer f64 -> bit list (most significant first), else None"""
    try:
        x = float(f)
    except Exception:
        return None
    if x != x or x < 0 or x != int(x) or x >= 2 ** 63:
        return None
    return [int(c) for c in bin(int(x))[2:]]


def radix_printed(out, tho, dec=","):
    """'0x1F' -> [16, ['1','F']], '4.294.967.296' -> [10, [...]] (grouping separator removed; a fraction of zeros,
    whose removal is C07's subject, is ignored); else [0, []]"""
    s = out.strip()
    m = re.match(r"^0([xXoObB])([0-9a-fA-F]+)$", s)
    if m:
        base = {"x": 16, "o": 8, "b": 2}[m.group(1).lower()]
        return [base, list(m.group(2).upper())]
    t = s.replace(tho, "") if tho else s
    if dec and dec in t:
        ip, _, fp = t.partition(dec)
        if fp.strip("0") == "":
            t = ip
    if re.match(r"^[0-9]+$", t):
        return [10, list(t)]
    return [0, []]
