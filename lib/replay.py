"""bin/check --replay <path>: re-execute the case of a replay file against /repo's current tree and compare it
with the expectation recorded in the file (which was computed by TLC when the violation was found).
exit 0 = the case now agrees, 1 = it still disagrees (prints the VIOLATION line again), 2 = cannot replay."""
import json
import os

import compare
import forms
import proj
from vlib import VERIF, log, run_harness


def main(path):
    with open(path, encoding="utf-8") as f:
        d = json.load(f)
    v = d["violation"]
    pid = v.get("property", "?")
    exp = v.get("expected")
    if isinstance(v.get("text"), str) and isinstance(exp, dict):
        it = {"line": v.get("line", {"form": v.get("form", "?")}), "text": v["text"], "cfg": v["cfg"], "lang": v.get("lang", "en"),
              "pre": v.get("pre", []), "today": v.get("today"), "expected": exp}
        if v.get("want"):
            it["want"] = v["want"]
        (slot, st, _), = forms.execute_items([it], "replay")
        ok = compare.match_slot(exp, slot)
        log("text      : %r" % v["text"])
        log("expected  : %s" % json.dumps(exp, ensure_ascii=False))
        log("observed  : %s" % json.dumps(slot if slot is not None else st, ensure_ascii=False))
    elif v.get("case") is not None and v.get("expected_slots") is not None:
        obs = run_harness([v["case"]], "replay")[0]
        got = []
        for st in obs.get("steps") or []:
            ss = proj.slots_of_step(st)
            got.append(None if ss is None else ss[1])
        ok = True
        for si, exps in v["expected_slots"]:
            slots = got[si] if si < len(got) else None
            if slots is None or len(slots) != len(exps) or not all(compare.match_slot(e, s) for e, s in zip(exps, slots)):
                ok = False
                log("step %d expected %s observed %s" % (si, json.dumps(exps, ensure_ascii=False), json.dumps(slots, ensure_ascii=False)))
    elif isinstance(v.get("text"), list) and isinstance(exp, list):
        text = "\n".join(v["text"])
        case = {"id": "replay", "cfg": v["cfg"], "steps": [{"op": "execute", "lang": v.get("lang", "en"), "text": text}]}
        obs = run_harness([case], "replay")[0]
        ss = proj.slots_of_step((obs.get("steps") or [obs])[0])
        ok = ss is not None and ss[0] is True and len(ss[1]) == len(exp) and all(compare.match_slot(e, s) for e, s in zip(exp, ss[1]))
        log("text      : %r" % text)
        log("expected  : %s" % json.dumps(exp, ensure_ascii=False))
        log("observed  : %s" % json.dumps(ss, ensure_ascii=False))
    else:
        log("this replay file has no directly executable case; its content:")
        log(json.dumps(v, ensure_ascii=False, indent=1)[:4000])
        return 2
    if ok:
        print("replay agrees with the specification now: property=%s" % pid)
        return 0
    print("VIOLATION property=%s replay=%s" % (pid, os.path.relpath(os.path.abspath(path), VERIF)))
    return 1
