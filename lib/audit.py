#!/usr/bin/env python3
"""Development-time audit (not a registered check): which entries of the configuration tables occur in at least one text that
some check evaluated in its last run (out/run/*.cases.ndjson)?  Entries nobody exercises are where a data-level change would slip."""
import glob, json, os, re, sys
VERIF = os.path.dirname(os.path.dirname(os.path.abspath(__file__)))
cfg = json.load(open("/repo/src/json/config.json"))

texts = {}          # lang -> set of lowercased texts
for f in glob.glob(os.path.join(VERIF, "out/run/*.cases.ndjson")):
    for l in open(f):
        try:
            c = json.loads(l)
        except Exception:
            continue
        lang = None
        for s in c.get("steps", []):
            if s.get("op") == "set_language":
                lang = s.get("lang")
            t = s.get("text")
            if isinstance(t, str):
                texts.setdefault(s.get("lang") or lang or "en", set()).add(t)

def blob(lang=None):
    if lang is None:
        return "\n".join("\n".join(v) for v in texts.values())
    return "\n".join(texts.get(lang, ()))

ALL = blob()
ALLL = ALL.lower()

def has_word(b, w):
    return re.search(r"(?<![\w])" + re.escape(w) + r"(?![\w])", b) is not None

def report(name, entries, b, word=True):
    miss = [e for e in entries if not (has_word(b, e) if word else e in b)]
    print("%-40s %4d entries, %4d never used%s" % (name, len(entries), len(miss), (": " + ", ".join(map(str, miss[:40]))) if miss else ""))

report("currencies (code, any case)", [k.lower() for k in cfg["currencies"].keys()], ALLL)
report("currency_rates", [k.lower() for k in cfg["currency_rates"].keys()], ALLL)
report("currency_alias", list(cfg["currency_alias"].keys()), ALLL, word=False)
report("currency symbols", sorted({v["symbol"].lower() for v in cfg["currencies"].values() if v.get("symbol")}), ALLL, word=False)
report("timezones", [k.lower() for k in cfg["timezones"].keys()], ALLL)
report("global alias (keys)", [k.replace("\\", "") for k in cfg["alias"].keys()], ALL, word=False)
for fam in cfg["types"]:
    names = []
    for it in fam["items"]:
        names += it.get("names", [])
    report("types." + fam["name"] + " names", names, ALL)
for lang, L in cfg["languages"].items():
    b = blob(lang); bl = b.lower()
    report(lang + ".alias", [k.replace("\\", "") for k in L["alias"].keys()], bl, word=False)
    report(lang + ".long_months", list(L["long_months"].keys()), bl)
    report(lang + ".short_months", list(L["short_months"].keys()), bl)
    report(lang + ".constant_pair", list(L["constant_pair"].keys()), bl)
    for g, ws in L["word_group"].items():
        report(lang + ".word_group." + g, ws, bl)
    report(lang + ".number_notation", list(L["number_notation"].keys()) if isinstance(L["number_notation"], dict) else [], b, word=False)
