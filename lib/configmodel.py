"""config.json in the vocabulary of spec/Config.tla: the unit families with their chain steps as exact rationals, the bridges between
families, the month and duration-word tables of every language, the currency tables and the zone table (DESIGN 14.10).
A step code is `{value}`, `{value} * N` or `{value} / N`; anything else is handed over as {"other": code} and Config.tla says so."""
import json
import os
import re
from fractions import Fraction

from vlib import OUT, config_json

STEP = re.compile(r"^\s*\{value\}\s*(?:([*/])\s*([0-9]+(?:\.[0-9]+)?))?\s*$")


def factor(code):
    m = STEP.match(code or "")
    if not m:
        return {"n": 0, "d": 1, "other": code or "?"}
    if not m.group(1):
        return {"n": 1, "d": 1, "other": ""}
    f = Fraction(m.group(2))
    if m.group(1) == "/":
        f = 1 / f
    return {"n": f.numerator, "d": f.denominator, "other": ""}


def fold(s):
    import lint
    return lint.fold(s)


def model():
    c = config_json()
    fams = []
    for t in c.get("types", []):
        items = sorted(t["items"], key=lambda i: i["index"])
        fams.append({"name": t["name"], "items": [{"idx": i["index"], "name": i["names"][0], "names": i["names"], "up": factor(i.get("upgrade_code")), "down": factor(i.get("downgrade_code"))}
                                                  for i in items]})
    bridges = [{"src": b["source"]["name"], "src_idx": b["source"]["index"], "dst": b["target"]["name"], "dst_idx": b["target"]["index"],
                "from_src": factor(b.get("to_source_calculation")), "from_dst": factor(b.get("to_target_calculation"))} for b in c.get("type_conversion", [])]
    langs = []
    for name, L in sorted(c["languages"].items()):
        langs.append({"lang": name,
                      "long_months": [{"w": w, "fold": fold(w), "m": m} for w, m in sorted(L.get("long_months", {}).items())],
                      "short_months": [{"w": w, "fold": fold(w), "m": m} for w, m in sorted(L.get("short_months", {}).items())],
                      "constants": [{"w": w, "fold": fold(w), "t": t} for w, t in sorted(L.get("constant_pair", {}).items())],
                      "duration_group": sorted(L.get("word_group", {}).get("duration_group", []))})
    cur = sorted(k.lower() for k in c.get("currencies", {}))
    m = {"families": fams, "bridges": bridges, "languages": langs,
         "currencies": cur,
         "rated": sorted(k.lower() for k in c.get("currency_rates", {})),
         "rates_positive": all(isinstance(v, (int, float)) and v > 0 for v in c.get("currency_rates", {}).values()),
         "alias": [{"w": k.lower(), "cur": v.lower()} for k, v in sorted(c.get("currency_alias", {}).items())],
         "zones": [{"name": k, "off": v} for k, v in sorted(c.get("timezones", {}).items())]}
    return m


def write():
    os.makedirs(os.path.join(OUT, "run"), exist_ok=True)
    p = os.path.join(OUT, "run", "configmodel.json")
    with open(p, "w", encoding="utf-8") as f:
        json.dump(model(), f, ensure_ascii=False)
    return p


if __name__ == "__main__":
    print(json.dumps(model(), ensure_ascii=False)[:3000])
