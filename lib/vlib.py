"""Shared machinery of the smartcalc verification driver (see DESIGN.md sections 3, 5, 6, 11).

Everything that decides a verdict lives in the TLA+ specification (spec/) and is evaluated by TLC;
this file only moves data: it runs TLC, runs the Rust harness, projects observations into the
specification's value domain, compares, triages against known_findings.json and writes evidence.
"""
import hashlib
import json
import os
import re
import subprocess
import sys
import time
from fractions import Fraction

VERIF = os.path.dirname(os.path.dirname(os.path.abspath(__file__)))
REPO = os.environ.get("VERIF_REPO", "/repo")
SPEC = os.path.join(VERIF, "spec")
# development only: VERIF_OUT / VERIF_HARNESS let a second copy of the harness run against a scratch worktree
OUT = os.environ.get("VERIF_OUT", os.path.join(VERIF, "out"))
HARNESS = os.environ.get("VERIF_HARNESS", os.path.join(VERIF, "harness"))
SCV = os.path.join(HARNESS, "target", "debug", "scv")
SHIM = os.path.join(OUT, "clock_shim.so")
TLA_JAR = "/opt/veriftools/tla/tla2tools.jar"


class ToolError(Exception):
    """cargo / TLC / harness trouble: exit 2, never a VIOLATION"""


def log(*a):
    print(*a, file=sys.stderr, flush=True)


# --------------------------------------------------------------------------------------------
# configuration of the tree under test
# --------------------------------------------------------------------------------------------
_cfg_cache = None


def config_json():
    global _cfg_cache
    if _cfg_cache is None:
        with open(os.path.join(REPO, "src", "json", "config.json"), encoding="utf-8") as f:
            _cfg_cache = json.load(f)
    return _cfg_cache


# --------------------------------------------------------------------------------------------
# harness
# --------------------------------------------------------------------------------------------
_built = False


def build_harness():
    global _built
    if _built:
        return
    t = time.time()
    env = dict(os.environ, CARGO_NET_OFFLINE="true")
    p = subprocess.run(["cargo", "build", "--offline", "--quiet"], cwd=HARNESS, env=env,
                       stdout=subprocess.PIPE, stderr=subprocess.PIPE, text=True)
    if p.returncode != 0:
        raise ToolError("cargo build failed:\n" + p.stderr[-4000:])
    _built = True
    log("[build] harness built against %s in %.1fs" % (REPO, time.time() - t))


def build_shim():
    src = os.path.join(VERIF, "shim", "clock.c")
    if os.path.exists(SHIM) and os.path.getmtime(SHIM) >= os.path.getmtime(src):
        return SHIM
    os.makedirs(OUT, exist_ok=True)
    p = subprocess.run(["clang", "-shared", "-fPIC", "-O1", "-o", SHIM, src, "-ldl"],
                       stdout=subprocess.PIPE, stderr=subprocess.PIPE, text=True)
    if p.returncode != 0:
        raise ToolError("clock shim build failed: " + p.stderr)
    return SHIM


def run_harness(cases, tag, fake_epoch=None, jobs=8, timeout_s=45, logger=False):
    """cases: list of case dicts (each with a unique 'id'). Returns list of observation dicts in order."""
    build_harness()
    d = os.path.join(OUT, "run")
    os.makedirs(d, exist_ok=True)
    inp = os.path.join(d, tag + ".cases.ndjson")
    outp = os.path.join(d, tag + ".obs.ndjson")
    with open(inp, "w", encoding="utf-8") as f:
        for c in cases:
            f.write(json.dumps(c, ensure_ascii=False) + "\n")
    env = dict(os.environ, TZ="UTC")
    if logger:
        env["SCV_LOGGER"] = "1"        # the library's log statements are evaluated (as after SmartCalc::initialize())
    if fake_epoch is not None:
        env["LD_PRELOAD"] = build_shim()
        env["VERIF_FAKE_EPOCH"] = str(int(fake_epoch))
    t = time.time()
    p = subprocess.run([SCV, "run", inp, outp, str(jobs), str(timeout_s)], env=env,
                       stdout=subprocess.PIPE, stderr=subprocess.PIPE, text=True)
    if p.returncode != 0:
        raise ToolError("scv run failed: " + p.stderr[-2000:])
    obs = []
    with open(outp, encoding="utf-8") as f:
        for line in f:
            obs.append(json.loads(line))
    if len(obs) != len(cases):
        raise ToolError("harness returned %d observations for %d cases" % (len(obs), len(cases)))
    for c, o in zip(cases, obs):
        if o.get("outcome") == "toolerror":
            raise ToolError("harness tool error on case %s: %s" % (c.get("id"), o))
        if o.get("id") != c.get("id"):
            raise ToolError("observation order mismatch")
    log("[harness] %s: %d cases in %.1fs" % (tag, len(cases), time.time() - t))
    return obs


def run_harness_stable_day(cases, tag, **kw):
    """Run; cases whose execution straddled a UTC date change are re-run (DESIGN 6.2)."""
    obs = run_harness(cases, tag, **kw)
    redo = [i for i, o in enumerate(obs) if o.get("outcome") == "done" and o.get("day0") != o.get("day1")]
    if redo:
        log("[harness] %d cases straddled midnight; re-running them" % len(redo))
        again = run_harness([cases[i] for i in redo], tag + ".redo", **kw)
        for i, o in zip(redo, again):
            obs[i] = o
    return obs


# --------------------------------------------------------------------------------------------
# TLC
# --------------------------------------------------------------------------------------------
class TlcResult:
    def __init__(self):
        self.ok = False
        self.states = 0
        self.distinct = 0
        self.depth = 0
        self.cases = []       # parsed payloads of PrintT(<<"CASE", json>>)
        self.bad = []         # parsed payloads of PrintT(<<"BAD", json>>)
        self.info = []        # parsed payloads of PrintT(<<"INFO", json>>)
        self.out = ""
        self.error = None
        self.violated = None  # name of a violated invariant / property
        self.coverage = {}
        self.wall = 0.0


_PRINT_RE = re.compile(r'^<<"(CASE|BAD|INFO)", (".*")>>$')


def tlc(module, cfg=None, workers=8, timeout=900, env=None, simulate=None, seed=None,
        coverage=False, heap="6g", stackdeque=False, want_cases=True):
    """Run TLC on spec/<module>.tla with spec/<cfg or module>.cfg. Returns TlcResult.
    Raises ToolError on parse errors, overflow, timeouts, crashes."""
    cfg = cfg or module
    meta = os.path.join(OUT, "tlc", "%s-%s-%d" % (module, cfg, os.getpid()))
    os.makedirs(meta, exist_ok=True)
    jopts = "-Xss1g -Dfile.encoding=UTF-8 -Dstdout.encoding=UTF-8"
    if stackdeque:
        jopts += " -Dtlc2.tool.queue.IStateQueue=StateDeque"
    cmd = ["tlc"]  # the wrapper on PATH already carries the CommunityModules classpath
    cmd += ["-workers", str(workers), "-metadir", meta, "-cleanup", "-noGenerateSpecTE",
            "-config", cfg + ".cfg"]
    if coverage:
        cmd += ["-coverage", "1"]
    if simulate:
        cmd += ["-simulate", simulate]
    if seed is not None:
        cmd += ["-seed", str(seed)]
    cmd += [module + ".tla"]
    e = dict(os.environ)
    e["JAVA_TOOL_OPTIONS"] = (jopts + " -Xmx" + heap + " -XX:+UseParallelGC").strip()
    if env:
        e.update({k: str(v) for k, v in env.items()})
    t = time.time()
    try:
        p = subprocess.run(["timeout", str(timeout)] + cmd, cwd=SPEC, env=e,
                           stdout=subprocess.PIPE, stderr=subprocess.STDOUT, text=True, encoding="utf-8",
                           errors="replace")
    finally:
        subprocess.run(["rm", "-rf", meta])
    r = TlcResult()
    r.wall = time.time() - t
    r.out = p.stdout
    lines = p.stdout.splitlines()
    other = []
    for ln in lines:
        m = _PRINT_RE.match(ln)
        if m:
            try:
                payload = json.loads(json.loads(m.group(2)))
            except Exception as ex:  # noqa
                raise ToolError("cannot parse TLC print: %s (%s)" % (ln[:200], ex))
            {"CASE": r.cases, "BAD": r.bad, "INFO": r.info}[m.group(1)].append(payload)
        else:
            other.append(ln)
    text = "\n".join(other)
    m = re.search(r"(\d+) states generated, (\d+) distinct states found", text)
    if m:
        r.states = int(m.group(1))
        r.distinct = int(m.group(2))
    m = re.search(r"The depth of the complete state graph search is (\d+)", text)
    if m:
        r.depth = int(m.group(1))
    if p.returncode == 124:
        raise ToolError("TLC timed out after %ds on %s/%s" % (timeout, module, cfg))
    if "Overflow when computing" in text:
        raise ToolError("TLC integer overflow in %s/%s: %s" % (module, cfg,
                        re.search(r"Overflow when computing[^\n]*", text).group(0)))
    if "Parsing or semantic analysis failed" in text or "java.lang." in text and "Exception" in text and "Error:" in text and "is violated" not in text:
        raise ToolError("TLC failed on %s/%s:\n%s" % (module, cfg, text[-3000:]))
    m = re.search(r"Error: Invariant (\S+) is violated", text)
    if m:
        r.violated = m.group(1)
    m2 = re.search(r"Error: (Action property|Temporal properties|Property) ?(\S*) ?(is|were) violated", text)
    if m2 and not r.violated:
        r.violated = m2.group(2) or "temporal"
    if "Error: Postcondition" in text or "POSTCONDITION" in text and "violated" in text:
        r.violated = r.violated or "postcondition"
    if simulate:
        r.ok = r.violated is None and "Error:" not in text
    else:
        r.ok = ("Model checking completed. No error has been found." in text) and r.violated is None
    if not r.ok and r.violated is None:
        # some other error (evaluation error, deadlock, assumption failure...)
        m = re.search(r"Error: [^\n]*(\n[^\n]*){0,6}", text)
        r.error = m.group(0) if m else text[-2000:]
    if coverage:
        for m in re.finditer(r"<(\w+) line \d+, col \d+ to line \d+, col \d+ of module (\w+)>: (\d+):(\d+)", text):
            r.coverage[m.group(2) + "!" + m.group(1)] = (int(m.group(3)), int(m.group(4)))
    log("[tlc] %s/%s: %d states, %d distinct, %d cases, %d bad, %.1fs%s" % (
        module, cfg, r.states, r.distinct, len(r.cases), len(r.bad), r.wall,
        "" if r.ok else "  NOT OK: %s" % (r.violated or r.error)))
    return r


SKIP_MC = False       # set by forms.collect(): only the generator part of another property is wanted


def tlc_must_pass(module, cfg=None, **kw):
    if SKIP_MC or os.environ.get("VERIF_DEV_SKIP_MC") == "1":      # the latter: development runs against scratch trees only (lib/seedcheck.py)
        return TlcResult()
    """Model-check a design-level configuration. A violated invariant here means the *specification*
    contradicts itself (oracle bug) -> tool error, not a verdict about the code."""
    r = tlc(module, cfg, **kw)
    if not r.ok:
        raise ToolError("specification check %s/%s failed: %s\n%s" % (module, cfg or module, r.violated or r.error,
                                                                     r.out[-1500:]))
    return r


# --------------------------------------------------------------------------------------------
# value domain: scaled rationals <<n, d, e>>  (spec/Rational.tla)
# --------------------------------------------------------------------------------------------
INT_MAX = 2 ** 31 - 1


def q_to_fraction(q):
    n, d, e = q
    return Fraction(n, d) * (10 ** e)


def fraction_to_q(fr):
    """canonical <<n, d, e>>: gcd 1, d > 0, 1000 does not divide n, e multiple of 3"""
    fr = Fraction(fr)
    n, d, e = fr.numerator, fr.denominator, 0
    if n == 0:
        return [0, 1, 0]
    while n % 1000 == 0:
        n //= 1000
        e += 3
    return [n, d, e]


def _simplest_within(fx, tol, max_den):
    from math import floor
    n0, d0, n1, d1 = 0, 1, 1, 0
    x = fx
    for _ in range(64):
        a = floor(x)
        n2, d2 = a * n1 + n0, a * d1 + d0
        if d2 > max_den:
            return None
        c = Fraction(n2, d2)
        if abs(c - fx) <= tol:
            return c
        frac = x - a
        if frac == 0:
            return c
        x = 1 / frac
        n0, d0, n1, d1 = n1, d1, n2, d2
    return None


def float_to_qs(x, max_den=2 * 10 ** 9, rel=1e-9):
    """the small scaled rationals an f64 can reasonably be read as: for a ladder of tolerances from a few ulps up to `rel`
    the *simplest* fraction inside the tolerance (first continued-fraction convergent), plus the closest fraction with a
    denominator up to 10^6. Every candidate lies within `rel` of x, so accepting "the exact expectation is one of them" is
    the comparison at `rel` that the replay direction makes, decided inside TLC by equality. Part of the trusted projection
    (DESIGN 4.3). Returns [] for a value that has no such reading ("irrational" for the specification's purposes)."""
    if x != x or x in (float("inf"), float("-inf")):
        return []
    if abs(x) < 1e-12:       # absolute tolerance at zero: a cancellation residue such as 7 - 7.000000000000001
        return [[0, 1, 0]]
    fx = Fraction(x)
    scale = 0
    y = fx
    while abs(y) >= 10 ** 9 and scale < 63:
        y /= 1000
        scale += 3
    cands = []
    for tol in (Fraction(1, 2 ** 49), Fraction(1, 10 ** 14), Fraction(1, 10 ** 13), Fraction(1, 10 ** 12), Fraction(1, 10 ** 11), Fraction(1, 10 ** 10), Fraction(rel)):
        if tol <= Fraction(rel):
            cands.append(_simplest_within(y, abs(y) * tol, max_den))
    cands.append(y.limit_denominator(10 ** 6))
    out = []
    for c in cands:
        if c is None or c == 0 or abs(c - y) > abs(y) * Fraction(rel):
            continue
        q = fraction_to_q(c * (10 ** scale))
        if abs(q[0]) > INT_MAX or q[1] > INT_MAX:
            continue
        if q not in out:
            out.append(q)
    return out


def float_to_q(x, max_den=2 * 10 ** 9, rel=1e-9):
    """the tightest reading (see float_to_qs), or None"""
    qs = float_to_qs(x, max_den, rel)
    return qs[0] if qs else None


def close(expected_fr, x, rel=1e-9, abs_zero=1e-12):
    """is the f64 x within tolerance of the exact expected value?"""
    if x is None or isinstance(x, str) or x != x or x in (float("inf"), float("-inf")):
        return False
    fx = Fraction(x)
    if expected_fr == 0:
        return abs(fx) <= Fraction(abs_zero)
    return abs(fx - expected_fr) <= abs(expected_fr) * Fraction(rel)


# --------------------------------------------------------------------------------------------
# violations, known findings, evidence
# --------------------------------------------------------------------------------------------
def canon(o):
    return json.dumps(o, sort_keys=True, ensure_ascii=False, separators=(",", ":"))


def short_hash(o):
    return hashlib.sha1(canon(o).encode("utf-8")).hexdigest()[:12]


def load_findings():
    p = os.path.join(VERIF, "known_findings.json")
    if not os.path.exists(p):
        return []
    with open(p, encoding="utf-8") as f:
        return json.load(f)["findings"]


def _match_field(cond, val):
    if isinstance(cond, dict):
        for op, x in cond.items():
            if op == "ge":
                if val is None or not val >= x:
                    return False
            elif op == "le":
                if val is None or not val <= x:
                    return False
            elif op == "gt":
                if val is None or not val > x:
                    return False
            elif op == "lt":
                if val is None or not val < x:
                    return False
            elif op == "ne":
                if val == x:
                    return False
            elif op == "re":
                if val is None or not re.search(x, str(val)):
                    return False
            elif op == "in":
                if val not in x:
                    return False
            elif op == "has":
                if val is None or x not in val:
                    return False
            else:
                raise ToolError("unknown matcher op " + op)
        return True
    if isinstance(cond, list):
        return val in cond
    return val == cond


def finding_matches(f, v):
    """f: known finding entry; v: violation record. match is a conjunction over v['feat'] / v fields."""
    if f.get("status") != "known":
        return False
    if f["property"] != v["property"]:
        return False
    feat = dict(v.get("feat", {}))
    for k, cond in f["match"].items():
        val = feat.get(k, v.get(k))
        if not _match_field(cond, val):
            return False
    return True


class Report:
    """Collects what one check run did; writes evidence and prints verdict lines."""

    def __init__(self, pid, tier, seed, level="model_checking"):
        self.pid = pid
        self.tier = tier
        self.seed = seed
        self.level = level
        self.t0 = time.time()
        self.violations = []
        self.states = 0
        self.transitions = 0
        self.tlc_runs = []
        self.replayed = 0
        self.trace_events = 0
        self.evaluations = 0
        self.distinct = set()
        self.nontrivial = set()
        self.samples = []
        self.rule = ""
        self.assumptions = []
        self.extra = {}
        self.exhaustive = False

    def add_tlc(self, name, r):
        self.states += r.distinct
        self.transitions += r.states
        self.tlc_runs.append({"run": name, "states_generated": r.states, "distinct_states": r.distinct,
                              "cases_emitted": len(r.cases), "wall_s": round(r.wall, 1)})

    def case(self, key, nontrivial=True):
        self.evaluations += 1
        h = short_hash(key)
        self.distinct.add(h)
        if nontrivial:
            self.nontrivial.add(h)

    def sample(self, s, limit=6):
        if len(self.samples) < limit:
            self.samples.append(s)

    def violation(self, v):
        v["property"] = self.pid
        self.violations.append(v)

    def finish(self):
        findings = load_findings()
        known_hits = {}
        unknown = []
        for v in self.violations:
            hit = None
            for f in findings:
                if finding_matches(f, v):
                    hit = f
                    break
            if hit:
                known_hits.setdefault(hit["id"], [hit, 0])
                known_hits[hit["id"]][1] += 1
            else:
                unknown.append(v)
        for fid, (f, n) in sorted(known_hits.items()):
            print("KNOWN-FINDING: property=%s %s [%s; %d cases of this run]" % (self.pid, f["what"], fid, n))
        # one VIOLATION line per distinct class of unknown violation (at most 10 printed)
        classes = {}
        for v in unknown:
            classes.setdefault(v.get("class", v.get("key", "?")), []).append(v)
        rdir = os.path.join(OUT, "replay")
        os.makedirs(rdir, exist_ok=True)
        printed = 0
        for cls, vs in sorted(classes.items(), key=lambda kv: -len(kv[1])):
            v = vs[0]
            path = os.path.join(rdir, "%s-%s.json" % (self.pid, short_hash(v)))
            with open(path, "w", encoding="utf-8") as f:
                json.dump({"violation": v, "same_class_count": len(vs),
                           "others": [x.get("text", x.get("key")) for x in vs[1:20]]}, f, ensure_ascii=False, indent=1)
            if printed < 10:
                print("VIOLATION property=%s replay=%s" % (self.pid, os.path.relpath(path, VERIF)))
                log("    class=%s count=%d e.g. %s" % (cls, len(vs), canon({k: v.get(k) for k in ("text", "expected", "observed", "cfg") if k in v})[:600]))
                printed += 1
        ev = {
            "property_id": self.pid,
            "tier": self.tier,
            "seed": self.seed,
            "level": self.level,
            "coverage": dict({
                "states": self.states,
                "transitions": self.transitions,
                "traces_validated_against_impl": self.replayed + self.trace_events,
                "replayed_cases": self.replayed,
                "trace_events_validated": self.trace_events,
                "evaluations": self.evaluations,
                "distinct_cases": len(self.distinct),
                "distinct_nontrivial": len(self.nontrivial),
                "rule": self.rule,
                "samples": self.samples,
                "tlc_runs": self.tlc_runs,
                "exhaustive": self.exhaustive,
                "known_finding_hits": {fid: n for fid, (f, n) in known_hits.items()},
                "violation_classes": len(classes),
            }, **self.extra),
            "assumptions": self.assumptions,
            "wall_s": round(time.time() - self.t0, 1),
            "violations": len(unknown),
        }
        evdir = os.environ.get("VERIF_EVIDENCE", os.path.join(VERIF, "evidence"))     # override: development runs against scratch copies
        os.makedirs(evdir, exist_ok=True)
        with open(os.path.join(evdir, self.pid + ".json"), "w", encoding="utf-8") as f:
            json.dump(ev, f, ensure_ascii=False, indent=1)
        log("[%s] tier=%s evaluations=%d distinct=%d violations=%d (known-finding hits %d) wall=%.0fs" % (
            self.pid, self.tier, self.evaluations, len(self.distinct), len(unknown),
            sum(n for _, n in known_hits.values()), time.time() - self.t0))
        return 1 if unknown else 0
