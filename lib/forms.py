"""Generic driver for single-line phrase forms (DESIGN 4.4, 5b, 5c).

An *item* is one abstract line in one rendering under one calculator context:
    {"line": abstract line (spec/Meaning.tla), "text": rendered text, "cfg": calculator configuration,
     "lang": language tag, "pre": [harness steps executed before the line on the same calculator],
     "pre_ev": [trace events that describe those steps to Trace.tla], "today": fake epoch seconds or None,
     "expected": slot emitted by TLC (replay direction only), "feat": {...}, "variant": str}

 replay(rep, items, tag)    executes the items, compares with item["expected"]  (spec -> impl)
 trace(rep, items, tag)     executes the items, lets TLC validate the recorded trace (impl -> spec)
"""
import json

import compare
import proj
from tracev import reset_event, validate_trace
from vlib import canon, run_harness, run_harness_stable_day, short_hash

BATCH = 40
# collect(): run another property's generator part only and hand its replay items over (C08 / C16 / C19 re-use the cases
# TLC enumerates for the other properties instead of keeping a second copy of the generators)
CAPTURE = None


def collect(module, rep, home=None):
    """the replay items (abstract line, rendered text, configuration, expectation from TLC) of another property's generator;
    cases on which the home property (home = its id) has a listed known finding are left out: the re-using property would only
    report the same defect again"""
    global CAPTURE
    import vlib
    sub = vlib.Report(rep.pid, rep.tier, rep.seed)
    CAPTURE = []
    vlib.SKIP_MC = True
    try:
        module.run(sub)
        items = CAPTURE
    finally:
        CAPTURE = None
        vlib.SKIP_MC = False
    if home:
        kfs = [f for f in vlib.load_findings() if f.get("status") == "known" and f["property"] == home]

        def hit(it):
            feat = dict(it.get("feat", {}), form=it["line"]["form"])
            for f in kfs:
                m = {k: v for k, v in f["match"].items() if k != "failure"}
                if all(vlib._match_field(c, feat.get(k)) for k, c in m.items()):
                    return True
            return False
        items = [it for it in items if not hit(it)]
    for r in sub.tlc_runs:
        if r["cases_emitted"]:
            rep.states += r["distinct_states"]
            rep.transitions += r["states_generated"]
            rep.tlc_runs.append(r)
    return items


def _group_key(it):
    return canon([it["cfg"], it.get("lang", "en"), it.get("pre", []), it.get("today"), it.get("want", [])])


def execute_items(items, tag, jobs=8):
    """returns for each item (slot or None, step observation). A panic ends its batch: the steps after it come back
    as 'skipped' and are executed again in fresh batches (a panic is attributed to the line that raised it only)."""
    res = _execute_items(items, tag, jobs)
    rounds = 0
    while rounds < 200:
        redo = [i for i, r in enumerate(res) if r[1].get("outcome") == "skipped" and r[1].get("why") == "earlier panic"]
        if not redo:
            break
        rounds += 1
        again = _execute_items([items[i] for i in redo], "%s.redo%d" % (tag, rounds), jobs)
        for i, r in zip(redo, again):
            res[i] = r
    return res


def _execute_items(items, tag, jobs=8):
    groups = {}
    for idx, it in enumerate(items):
        groups.setdefault(_group_key(it), []).append(idx)
    by_today = {}
    for key, idxs in groups.items():
        t = items[idxs[0]].get("today")
        by_today.setdefault(t, []).append(idxs)
    result = [None] * len(items)
    for today, grouplist in sorted(by_today.items(), key=lambda kv: (kv[0] is not None, kv[0] or 0)):
        cases = []
        owners = []
        for idxs in grouplist:
            first = items[idxs[0]]
            for b in range(0, len(idxs), BATCH):
                chunk = idxs[b:b + BATCH]
                pre = list(first.get("pre", []))
                steps = pre + [{"op": "execute", "lang": items[i].get("lang", "en"), "text": items[i]["text"]} for i in chunk]
                case = {"id": "%s.%d" % (tag, len(cases)), "cfg": first["cfg"], "steps": steps}
                if first.get("want"):
                    case["want"] = first["want"]
                if pre:
                    case["fresh"] = True
                cases.append(case)
                owners.append((chunk, len(pre)))
        t = "%s.%s" % (tag, "real" if today is None else str(today))
        if today is None:
            obs = run_harness_stable_day(cases, t, jobs=jobs)
        else:
            obs = run_harness(cases, t, fake_epoch=today, jobs=jobs)
        for (chunk, npre), o in zip(owners, obs):
            steps = o.get("steps")
            for k, i in enumerate(chunk):
                st = steps[npre + k] if steps else o
                ss = proj.slots_of_step(st)
                slot = None
                if ss is not None and ss[0] is True and len(ss[1]) == 1:
                    slot = ss[1][0]
                    project_extra(slot, items[i])
                result[i] = (slot, st, o.get("day0", 0))
    return result


def project_extra(slot, item):
    """kind-specific projection of the printed form (trusted, table driven; see lib/proj.py)"""
    if slot.get("k") == "dur":
        slot["parts"] = proj.duration_parts(slot.get("out", ""), item.get("lang", "en"))
    elif slot.get("k") == "date":
        slot["pr"] = proj.date_printed(slot.get("out", ""), item.get("lang", "en"))
    elif slot.get("k") == "datetime":
        slot["pr"] = proj.datetime_printed(slot.get("out", ""), item.get("lang", "en"))
    elif slot.get("k") == "num" and item.get("radix"):
        b = proj.int_bits(slot.get("f"))
        if b is not None:
            slot["bits"] = b
        slot["pr"] = proj.radix_printed(slot.get("out", ""), item["cfg"]["tho"], item["cfg"]["dec"])
    elif slot.get("k") == "num" and slot.get("nt") == "raw":
        try:
            x = float(slot["f"])
            if x == int(x) and abs(x) < 2 ** 53:
                slot["ts"] = proj.ts_split(int(x))
        except Exception:
            pass
        import re as _re
        slot["pr"] = proj.ts_split(int(slot["out"])) if _re.match(r"^-?\d+$", slot.get("out", "")) else [0, -1]
    elif slot.get("k") == "time":
        slot["pr"] = proj.time_printed(slot.get("out", ""))


def replay(rep, items, tag, match=None):
    if CAPTURE is not None:
        CAPTURE.extend(items)
        return []
    res = execute_items(items, tag)
    match = match or compare.match_slot
    for it, (slot, st, _day) in zip(items, res):
        rep.case([it["text"], it["cfg"], it.get("lang", "en"), it.get("pre", []), it.get("today")], it.get("nontrivial", True))
        rep.replayed += 1
        exp = it["expected"]
        if len(rep.samples) < 5 and it.get("nontrivial", True) and (len(rep.samples) == 0 or short_hash(it["text"])[0] in "01"):
            rep.sample({"text": it["text"], "lang": it.get("lang", "en"), "expected": exp, "observed": slot})
        if not match(exp, slot):
            kind = compare.failure_kind(slot, st)
            feat = dict(it.get("feat", {}))
            feat.update({"failure": kind, "form": it["line"]["form"], "variant": it.get("variant", ""), "lang": it.get("lang", "en"),
                         "dec": it["cfg"]["dec"], "tho": it["cfg"]["tho"]})
            rep.violation({"check": "replay", "form": it["line"]["form"], "text": it["text"], "line": it["line"], "cfg": it["cfg"],
                           "lang": it.get("lang", "en"), "pre": it.get("pre", []), "today": it.get("today"),
                           "expected": exp, "observed": slot if slot is not None else st, "feat": feat,
                           "class": it.get("class_fn", default_class)(kind, feat)})
    return res


def default_class(kind, feat):
    keys = [k for k in sorted(feat) if k not in ("failure",)]
    return kind + "|" + "|".join("%s=%s" % (k, feat[k]) for k in keys)


def trace(rep, items, tag):
    """items need no 'expected': TLC computes it. Returns number of disagreements."""
    if CAPTURE is not None:
        return 0
    res = execute_items(items, tag)
    events = []
    index = []
    last_key = None
    for it, (slot, st, day0) in zip(items, res):
        key = _group_key(it)
        today_days = (it["today"] // 86400) if it.get("today") is not None else day0
        if key != last_key or True:
            # one reset per item keeps events independent (reset is cheap for TLC)
            events.append(reset_event(it["cfg"], today_days))
            index.append(None)
            for e in it.get("pre_ev", []):
                events.append(e)
                index.append(None)
            last_key = key
        if slot is None:
            ss = proj.slots_of_step(st)
            if ss is None:
                status, slots = True, [{"k": st.get("outcome", "panic")}]
            else:
                status, slots = ss
        else:
            status, slots = True, [slot]
        events.append({"ev": "execute", "lang": it.get("lang", "en"), "lines": [it["line"]], "status": status,
                       "obs": [proj.trace_slot(s) for s in slots]})
        index.append((it, slots, st))
        rep.case([it["text"], it["cfg"], it.get("lang", "en"), it.get("pre", []), it.get("today")], it.get("nontrivial", True))
    bad = validate_trace(rep, events, tag)
    for b in bad:
        it, slots, st = index[b["l"] - 1]
        slot = slots[0] if slots else None
        kind = compare.failure_kind(slot if slot and slot.get("k") not in ("panic", "crash", "hang") else None, st)
        feat = dict(it.get("feat", {}))
        feat.update({"failure": kind, "form": it["line"]["form"], "variant": it.get("variant", "random"), "lang": it.get("lang", "en"),
                     "dec": it["cfg"]["dec"], "tho": it["cfg"]["tho"]})
        rep.violation({"check": "trace", "form": it["line"]["form"], "text": it["text"], "line": it["line"], "cfg": it["cfg"],
                       "lang": it.get("lang", "en"), "pre": it.get("pre", []), "today": it.get("today"),
                       "expected": b["expected"], "observed": slots, "feat": feat,
                       "class": it.get("class_fn", default_class)(kind, feat)})
    if items:
        rep.sample({"random_trace_item": {"text": items[0]["text"], "line": items[0]["line"]}})
    return len(bad)


def dump(o):
    return json.dumps(o, ensure_ascii=False)
