#!/usr/bin/env python3
"""Writes MANIFEST.json from the table below (one source of truth for the check list)."""
import json
import os

VERIF = os.path.dirname(os.path.dirname(os.path.abspath(__file__)))

CHECKS = {
    "C02": dict(
        technique="TLA+ spec (Arith.tla) model-checked by TLC; TLC-enumerated expression trees replayed into the code; random traces validated by TLC (Trace.tla)",
        text="TLC model-checks that the specification's token grammar agrees with the tree semantics for all trees of depth <= 2, "
             "enumerates all such trees and the harness replays each in several spellings, spacings and separator settings against the real library; "
             "recorded executions of random deeper trees are validated by TLC against the specification. Bounded: depth, literal set.",
        note="trusted: renderer (tokens -> text), f64 -> rational projection, 1e-9 tolerance, TLC; expression depth and literal sets are bounded",
        ref="7 C02"),
}

CHECKS["C03"] = dict(
    technique="TLA+ system model (SmartCalc.tla, Env.tla) model-checked by TLC; TLC-enumerated programs replayed into the code; random session traces validated by TLC (Trace.tla)",
    text="TLC model-checks LatestBinding / FailKeepsEnv / LoopIsRunLines on the system model, enumerates every straight-line program of <= 4 lines over a "
         "13-line alphabet (every value kind, copies, self-reference, longest-match names, failing lines) with expected slots, and the harness replays "
         "each as one text and line by line through a re-used session; random programs of 20..50 lines are executed and their traces validated by TLC. "
         "Phrase lines that TLC generated for seven other properties (conversions, shifts, differences, percentage phrases; 25 form variants) are evaluated with their leading or "
         "trailing operand written as a name bound on the line before (Meaning form 'via') and must mean what the phrase with the operand itself means.",
    note="trusted: renderer, projection, TLC; program length and alphabet are bounded; names are only compared after a successful binding",
    ref="7 C03")
CHECKS["C04"] = dict(
    technique="TLA+ system model (SmartCalc.tla) model-checked by TLC; TLC-enumerated call histories replayed into the code; random histories validated by TLC (Trace.tla)",
    text="TLC checks framing (evaluation never changes calc), privacy of execute, session isolation and history independence on every reachable state and step "
         "of the system model, enumerates all histories of 4 calls over execute / set_text / execute_session on two sessions and five texts with the expected "
         "observation of every call, and the harness replays them on long-lived calculators; random histories of 200 calls are validated by TLC.",
    note="trusted: renderer, projection, TLC; history depth, number of sessions and texts are bounded",
    ref="7 C04")

CHECKS["C10"] = dict(
    technique="TLA+ spec (Duration.tla) model-checked by TLC; TLC-enumerated duration lines replayed into the code in every unit spelling of every language; random traces validated by TLC (Trace.tla)",
    text="TLC model-checks on Duration.tla that the greedy parts sum to the magnitude, stay below the next unit, that 'as' floors and the unit identities hold "
         "for all magnitudes up to 1200 (thorough 40000) days x 16 seconds-of-day around every carry; enumerates written durations of 1..7 parts over boundary counts, "
         "sums, differences and 'as' conversions with expected value and printed parts, replayed in every spelling of en and tr; random part sequences with counts "
         "to 10^6 are executed and validated by TLC.",
    note="trusted: renderer, duration_parts projection (language format table), TLC; counts, part sequences and operand sets are bounded",
    ref="7 C10")

CHECKS["C11"] = dict(
    technique="TLA+ spec (Clock.tla) model-checked by TLC; TLC-enumerated time / zone lines replayed into the code under three default zones; random traces validated by TLC (Trace.tla)",
    text="TLC model-checks on Clock.tla the round trip wall -> instant -> wall, composition of conversions, shift inverse / modulo 24 h and symmetry of differences for every minute of the day "
         "x 14 offsets; enumerates 7 wall times x every usable zone of config.json and 8 GMT forms, conversions over ordered zone pairs (quick 44x44, thorough all), shifts, differences under "
         "3 default zones set through set_timezone, replayed in every admissible spelling; random times / zones / durations / default zones are executed and validated by TLC.",
    note="trusted: renderer, time_printed projection, zone offsets read from config.json, TLC; 12:xx am is a known finding (read as noon, pinned by the suite); zone names with another meaning are outside the property",
    ref="7 C11")

CHECKS["C09"] = dict(
    technique="TLA+ spec (Calendar.tla) model-checked by TLC; TLC-enumerated date lines replayed into the code in every spelling and language, today-dependent lines under pretended dates; random traces validated by TLC (Trace.tla)",
    text="TLC model-checks on Calendar.tla the days <-> civil round trip, successor structure and the shift / difference algebra for every day of 1890..2110 (thorough: years 1..8999); "
         "enumerates literals over boundary years x months x days, impossible dates, day keywords, year-less dates, shifts by 23 offsets in both directions and differences with expected "
         "values; replayed in all spellings (d/m/y, 'd Month y', 'Month d, y', 'Month d y', 'd Month'; every configured month name) in en and tr, and under pretended dates through a clock "
         "shim; uniformly random dates of years 1..9999 and counts are executed and validated by TLC. Two defects the suite pins are listed as known findings.",
    note="trusted: renderer, date_printed projection, clock shim, TLC; month / year shifts only where the target day exists; literal sets are bounded",
    ref="7 C09")

CHECKS["C14"] = dict(
    technique="TLA+ spec (UnixTime.tla over Calendar.tla) model-checked by TLC; TLC-enumerated timestamp / date lines replayed into the code; random traces validated by TLC (Trace.tla)",
    text="TLC model-checks on UnixTime.tla that timestamp -> date-time -> timestamp is the identity for 8 offsets and that the printed local date-time read back gives the instant, on 2,325 "
         "boundary and grid timestamps of years 1..9999; enumerates boundary timestamps and a grid x default and explicit zones under 3 default zones (UTC, one east, one west with minutes) as 'N to date' / 'N to Z' and as the "
         "one-line round trip, dates and times 'as unix', date-times written '<date> at <time>' (their value, timestamp, shift by a duration, display in a zone), each with the expected instant, zone, printed fields and printed digits; random timestamps and dates are executed and validated by TLC.",
    note="trusted: renderer, timestamp split and date-time text projection, TLC; '<time> as unix' (no date) only under a UTC default zone; 'date at N' (bare hour) is not used",
    ref="7 C14")

CHECKS["C13"] = dict(
    technique="TLA+ spec (Radix.tla, integers as bit sequences) model-checked by TLC; TLC-enumerated literal / conversion lines replayed into the code; random traces validated by TLC (Trace.tla)",
    text="TLC model-checks on Radix.tla that reading the printed literal gives the integer back in bases 2, 8, 10, 16 for all n < 2^12 and 2^k - 1, 2^k, 2^k + 1 (k <= 53), with decimal anchors; "
         "enumerates such integers as literals in each base, in sums with a decimal and converted from 4 source bases to 4 targets (decimal sources also with .25 / .75) with expected value "
         "(bit-exact) and printed digits; replayed with prefix / digit case, leading zero, keyword and synonym variants; random integers below 2^53 are executed and validated by TLC.",
    note="trusted: renderer, integer -> bits and printed-literal projection, TLC; exact halves are not used; hex literals the money tokenizer claims are a listed known finding",
    ref="7 C13")

CHECKS["C05"] = dict(
    technique="TLA+ spec (Percent.tla on exact rationals) model-checked by TLC; TLC-enumerated percentage phrases replayed into the code; random traces validated by TLC (Trace.tla)",
    text="TLC model-checks the mutual consistency of the seven formulas (on = X + of, off = X - of, 'what %' and 'of what' invert 'of', zero divisors) on 36 value / percentage pairs; "
         "enumerates every phrase over 6 values x 6 percentages (negative, zero, fractional, > 100), plain and as money in 3 (thorough: all rated) currencies plus 2 (thorough 14) currencies that have no rate, with exact rational "
         "expectations; replayed in both operand orders, both spellings p% / %p, several money spellings and two separator configurations; random decimals are executed and validated by TLC.",
    note="trusted: renderer, f64 -> rational projection (1e-9), TLC; value sets are bounded",
    ref="7 C05")
CHECKS["C06"] = dict(
    technique="TLA+ spec (Money.tla; rate table as state of SmartCalc.tla) model-checked by TLC; TLC-enumerated lines and update_currency / evaluate histories replayed into the code; random histories validated by TLC (Trace.tla)",
    text="TLC model-checks conversion identity / transitivity / inverse, arithmetic, alias resolution and RateFrame on exact rates, and EvalFramesCalc plus the return value of update_currency "
         "on every enumerated history; enumerates literals in every rated currency and spelling, conversions over all 1,024 ordered pairs of rated currencies under the configured rates "
         "(expectation = term over config.json's rates) and under exact rates set through update_currency, money arithmetic, the rate frame over the whole table (update_currency of each of the "
         "161 configured currencies followed by a conversion of every rated currency), and all histories of 3 (thorough 4) calls over "
         "update_currency(code | alias | unknown) / evaluate; random histories of 12..40 calls with exact rates are executed and validated by TLC.",
    note="trusted: renderer, projection, double-precision evaluation of terms over configured rates (1e-9), TLC; amounts, history depth and the history alphabet are bounded",
    ref="7 C06")

CHECKS["C12"] = dict(
    technique="TLA+ spec (Units.tla: the standard unit definitions as exact rationals, ounce and 2^k symbolic) model-checked by TLC; TLC-enumerated conversions over all unit pairs replayed into the code; random traces validated by TLC (Trace.tla)",
    text="TLC model-checks inverse, transitivity and linearity of conversion over all pairs / triples of the 33-unit table, that kinds never mix, and the definitions quoted in the property; "
         "enumerates all 1,089 ordered unit pairs x 3 amounts (cross-kind pairs must be refused), literals in every spelling and arithmetic, replayed under two (thorough: four) separator "
         "configurations with every keyword; random amounts, pairs and operations are executed and validated by TLC.",
    note="trusted: renderer, projection, double-precision evaluation of terms with the ounce constant / large powers of two (1e-9), TLC; unit sizes are those written in spec/Units.tla",
    ref="7 C12")

CHECKS["C18"] = dict(
    technique="TLA+ spec (Registry.tla; rule list and unit families as state of SmartCalc.tla) model-checked by TLC; TLC-enumerated registration / deletion / evaluation histories replayed into the code; random histories validated by TLC (Trace.tla)",
    text="TLC checks RegistryIsReplay (the rule list always equals the replay of the surviving registrations), the return values of every registry call, DupRejected and EvalFramesCalc on every "
         "history it enumerates: 20,736 rule histories (4 calls over 12 actions: rules sharing patterns, conditional acceptance, declining, unknown language, deletion by name) and 10,000 family "
         "histories (duplicates, other factors, unknown family, conversions along the chain); quick replays a seeded sample of 5,000 + 5,000 on fresh calculators, thorough depth 5 up to 60,000 "
         "per part; 'as if the rule were absent' is compared with a rule-free calculator; random histories of 30..80 calls are executed and validated by TLC.",
    note="trusted: rule behaviour interpreter harness/src/rules.rs, renderer, projection, TLC; history depth and alphabets bounded; lines contain at most one occurrence of a registered pattern",
    ref="7 C18")

CHECKS["C07"] = dict(
    technique="TLA+ spec (NumFormat.tla on exact decimal expansions) model-checked by TLC; recorded (value, format setting, printed characters) traces of the real library validated by TLC (Trace.tla 'format' events bound to the calculator's format state)",
    text="TLC model-checks on NumFormat.tla that every admissible output is well formed and grouped exactly every third digit on 28,672 shape x setting pairs, and enumerates decimal shapes "
         "(integer parts on the grouping boundaries x all fraction patterns over {0,4,5,9} x sign). Each shape is written as a number / percentage / money / unit literal under settings from "
         "digits x removal x rounding x 4 separator pairs; the exact decimal expansion of the double the calculator holds and the printed characters form a trace that TLC validates against the "
         "set of correctly rounded, grouped and signed outputs. Random doubles likewise. The binding is impl -> spec only (a decimal shape is not a double).",
    note="trusted: Rust's exact float formatting for the expansion, Python repr for shortest digits, TLC; exact ties accept both neighbours; '-0' for a negative value rounding to zero accepted; "
         "with rounding off only 'all shortest digits or none (removal on)' is required",
    ref="7 C07")

CHECKS["C08"] = dict(
    technique="TLA+ system model (separators are calculator state; SepIndependent invariant) model-checked by TLC; TLC-enumerated cases of five generators replayed under four separator configurations; random setter / evaluation histories validated by TLC (Trace.tla)",
    text="TLC checks SepIndependent on every reachable state of the system model (the meaning of every line is the same under all separator configurations) with SetDecimalSep / SetThousandSep "
         "as actions; the cases TLC enumerates for arithmetic, percentages, money, units and radix conversions (quick: 250 per generator, thorough: all) are rewritten into and evaluated under "
         "the 4 separator configurations against one expectation, plus plain and grouped literals; random histories on one calculator change the separators through the setters between "
         "evaluations, carry values through variables and write dates with a comma; validated by TLC.",
    note="trusted: renderer (literals in the convention in force), projection, TLC; the decimal separator is never empty in the claimed configurations",
    ref="7 C08")

CHECKS["C15"] = dict(
    technique="recorded (printed form, printed form after typing it back) pairs of the real library validated by TLC against Trace.tla's roundtrip step; TLA+ round-trip lemmas (MC_Duration!ReadBack, MC_Radix, MC_Clock, MC_Calendar) model-checked by TLC",
    text="The specification is thin here (a relation between two runs of the code): TLC validates for every recorded pair that the kind is one the statement lists and that both printed forms "
         "are equal, and model-checks on the specification where print-then-read is the identity at all (ReadBack: exactly when the duration printer does not emit '12 months'). Values of every "
         "kind (numbers on rounding boundaries, percentages, money in currencies whose symbol reads back, durations with carries, zoned times, dates incl. the current year, all 33 units, based "
         "integers) x 12 (thorough 24) separator / digit / removal configurations x en, tr.",
    note="trusted: harness feeding the first output back verbatim, TLC; value lists are finite; date-times and the empty print of a zero duration are outside the statement",
    ref="7 C15")

CHECKS["C16"] = dict(
    technique="TLA+ spec in which spacing, comments and letter case are rendering attributes (invariance by construction); TLC-enumerated cases of nine generators replayed in rewritten spellings against the expectation of the unmodified line; rewritten random cases validated by TLC (Trace.tla)",
    text="The specification is thin here: no operator of Meaning.tla can observe blanks, comments or letter case, so the property is a pure conformance obligation. A seeded sample of the "
         "cases TLC enumerates for arithmetic, percentages, money, dates, durations, times, units, radix and timestamps is rewritten with widened gaps, trailing comments from a pool with "
         "digits / operators / keywords / month and unit names, and UPPER / Title case of currency codes, month names, zone names and connectives, and must give the value TLC computed for "
         "the unmodified line; blank-only and comment-only lines must be empty; randomly rewritten cases are executed and validated by TLC.",
    note="trusted: the rewriting functions of lib/props/c16.py (only existing gaps are widened, am / pm stays with its time, unit names keep their case), renderer, projection, TLC",
    ref="7 C16")

CHECKS["C19"] = dict(
    technique="TLA+ spec in which the language is a rendering / printing attribute (invariance by construction; printed words checked by PrintMatches through table-driven projections); TLC-enumerated date, duration and arithmetic cases replayed in every language; random cases validated by TLC (Trace.tla)",
    text="The cases TLC enumerates for dates and durations are rendered with every configured month name, duration word and day keyword of every language and must give the value TLC computed, "
         "printed with that language's own month names and unit words; arithmetic trees are written with each language's operator words (in lower case against the value, in title / upper case against what English does with its own words); word-free arithmetic, percentage and money cases are "
         "evaluated under every language tag and must agree in value and in printed output; random cases are executed and validated by TLC with the language in the event.",
    note="trusted: renderer (words from config.json), date_printed / duration_parts projections (language tables), TLC; only concepts a language has words for are rendered in it",
    ref="7 C19")

CHECKS["C17"] = dict(
    technique="TLA+ spec (UiSpans.tla) model-checked by TLC; recorded (line length, written lexeme spans, reported highlight tokens) traces of the real library validated by TLC (Trace.tla 'ui' events)",
    text="TLC model-checks that the well-formedness predicate is exactly 'increasing chain of non-empty disjoint spans inside the line' and enumerates every sequence of 1..3 (thorough 5) "
         "lexeme classes out of 13 (numbers, based literals, operators, parentheses, ASCII / 2-byte / 3-byte words, a 4-byte symbol, words whose case mapping changes length, assignment, zone and month names) "
         "with and without a comment; the driver renders each with concrete strings in en and tr, knows the character span of every number, operator and comment it wrote, and TLC validates "
         "every recorded line: spans inside the line, ordered, disjoint, and each written lexeme reported with its own kind and exactly its characters. Random longer lines likewise.",
    note="trusted: the composer's span bookkeeping (lexemes separated by blanks), Debug names of UiTokenType, TLC; only number / operator / comment lexemes are claimed",
    ref="7 C17")

CHECKS["C01"] = dict(
    technique="TLA+ system model (evaluation loop of SmartCalc.tla: SlotPerLine, LoopIsRunLines, Terminates under fairness) model-checked by TLC; TLC-enumerated lexeme-class sequences instantiated and executed; every execution validated by TLC as a step of the model (Trace.tla); fuzz driver",
    text="Model-checked: the evaluation loop appends exactly one slot per line, an error slot never disables the rest of the loop, a started evaluation ends. Conformance: TLC enumerates every "
         "sequence of 1..2 (thorough 3) lexeme classes out of a 25-class alphabet built from reading the code (boundary numbers, over-long radix literals, atoms, fields, every configured word, "
         "operator characters, unicode shapes, huge counts); the driver joins them into texts of 1..4 lines with LF / CRLF under 4 language tags (one unknown, one empty) and 6 separator / zone "
         "configurations, adds a fuzz set (random UTF-8, dictionary words, regex-shaped fragments, mutated test lines), runs everything in worker processes with panic, crash and hang capture, "
         "and TLC validates each execution: returned, status true, one admissible slot per line, and every line's slot equal to the slot of that line alone. The panic / termination half is "
         "exploration driven by the model's alphabet - TLA+ cannot see Rust panics - and the evidence says so. Two non-gating layers are reported in the evidence: the rule engine "
         "(Pipeline.tla, hook-based trace validation) and the kind algebra A op B (Kinds.tla, descriptive).",
    note="trusted: worker-process isolation with panic hook and 45 s watchdog (no case is started once 24 have hung), projection, TLC; lines <= 256 characters; custom rules are outside C01's configuration space",
    ref="7 C01")

NOT_YET = {
}


def main():
    props = [json.loads(l) for l in open(os.path.join(VERIF, "properties.jsonl"))]
    checks = []
    na = []
    for p in props:
        pid = p["id"]
        if pid in CHECKS:
            c = CHECKS[pid]
            checks.append({
                "property_id": pid,
                "quick_cmd": "bin/check %s --tier quick" % pid,
                "thorough_cmd": "bin/check %s --tier thorough" % pid,
                "evidence_file": "evidence/%s.json" % pid,
                "replay_cmd_template": "bin/check --replay {path}",
                "engine": "tlc+harness",
                "level_claimed": {"category": c.get("category", "model_checking"), "text": c["text"], "design_ref": "DESIGN.md section " + c["ref"]},
                "level_note": c["note"],
                "technique": c["technique"],
            })
        else:
            na.append({"property_id": pid, "reason": NOT_YET.get(pid, "check not built yet in this round (planned, see DESIGN.md section 7); not claimed until it exists")})
    m = {
        "version": 1,
        "setup_cmd": "bin/setup",
        "hooks": {
            "guard": "smartcalc_verif",
            "enable": "rustflags --cfg smartcalc_verif in harness/.cargo/config.toml (the harness builds /repo as a path dependency); the hook (src/verif.rs and guarded calls in src/tokinizer/rule_tokinizer/mod.rs) records the rule engine's steps per thread; it feeds only the non-gating Pipeline conformance reported in C01's evidence; a second guarded hook (Tokinizer::new, Tokinizer::add_token_location) records the tokenizers' span claims for the non-gating Claims conformance reported in C17's evidence",
            "baseline_off_cmd": "cd /repo && cargo test --workspace --no-fail-fast --offline",
            "source_commits": ["4c682d7", "8ca6c13"],
            "add_only": True,
        },
        "engines": [
            {"name": "tlc", "path": "spec/", "serves_properties": [c["property_id"] for c in checks], "kind_free_text": "TLA+ specification checked / enumerated / used for trace validation by TLC 1.8.0"},
            {"name": "apalache", "path": "spec/lemmas/", "serves_properties": ["C09", "C10", "C11"], "kind_free_text": "Apalache 0.58 discharges unbounded integer lemmas about the specification's oracles as single-state checks (duration decomposition, clock round trip, calendar closed form); they strengthen the oracle, no verdict about the code depends on them"},
            {"name": "pipeline", "path": "spec/Pipeline.tla", "serves_properties": ["C01"], "kind_free_text": "implementation-shaped model of the rule engine (scanner, rule order, restart schedule), model-checked on the actual rule table and bound to the code by the cfg(smartcalc_verif) hook and spec/PipelineTrace.tla; non-gating"},
            {"name": "claims", "path": "spec/Claims.tla", "serves_properties": ["C17"], "kind_free_text": "implementation-shaped model of the tokenizers' claim discipline (the guard of add_token_location), model-checked (the guard is not the disjointness test) and bound to the code by the cfg(smartcalc_verif) hook and spec/ClaimsTrace.tla; non-gating"},
            {"name": "config", "path": "spec/Config.tla", "serves_properties": ["C06", "C09", "C10", "C11", "C12", "C19"], "kind_free_text": "the configuration tables as a model: chains and bridges of the unit families against the standard definitions, month and word tables, currency and zone tables, checked by TLC on config.json of the tree under test; the word-table part gates C09 / C10 / C19, the rest is reported"},
            {"name": "kinds", "path": "spec/Kinds.tla", "serves_properties": ["C01"], "kind_free_text": "descriptive model of the kind algebra A op B, replayed into the code in both languages; non-gating (drift)"},
            {"name": "harness", "path": "harness/", "serves_properties": [c["property_id"] for c in checks], "kind_free_text": "Rust executor linking /repo as a path dependency; worker processes with panic, crash and hang capture"},
        ],
        "checks": checks,
        "not_applicable": na,
        "notes": "All verdicts come from the TLA+ specification under spec/ evaluated by TLC and bound to the code by replay and trace validation; see DESIGN.md.",
    }
    with open(os.path.join(VERIF, "MANIFEST.json"), "w") as f:
        json.dump(m, f, indent=1)
        f.write("\n")


if __name__ == "__main__":
    main()
