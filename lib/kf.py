#!/usr/bin/env python3
"""Maintenance helper (development time only, never run by a check): add an entry to known_findings.json.
   lib/kf.py fixed <ID> <property[,property]> <commit> <what failed>
   lib/kf.py known <ID> <property> <what fails> <match-json>
"""
import json
import os
import sys

P = os.path.join(os.path.dirname(os.path.dirname(os.path.abspath(__file__))), "known_findings.json")


def main():
    d = json.load(open(P)) if os.path.exists(P) else {"comment": "Read-only at run time. status=known entries suppress exactly the violations their match describes; status=fixed entries suppress nothing.", "findings": []}
    kind = sys.argv[1]
    if kind == "fixed":
        fid, props, commit, what = sys.argv[2:6]
        for p in props.split(","):
            e = {"id": fid if "," not in props else fid + "-" + p, "property": p, "status": "fixed", "commit": commit, "what": what,
                 "line": "fixed: property=%s %s %s" % (p, commit, what)}
            d["findings"] = [x for x in d["findings"] if x["id"] != e["id"]] + [e]
    else:
        fid, prop, what, match = sys.argv[2:6]
        e = {"id": fid, "property": prop, "status": "known", "what": what, "match": json.loads(match)}
        d["findings"] = [x for x in d["findings"] if x["id"] != fid] + [e]
    json.dump(d, open(P, "w"), indent=1, ensure_ascii=False)


main()
