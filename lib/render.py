"""Abstract line -> text. Trusted (the inverse of the abstraction function); kept simple; never consults
an oracle. Reads words and separators from the config.json of the tree under test (DESIGN 4.4, App. B)."""
import random
from fractions import Fraction

from vlib import ToolError, config_json, short_hash

DEFAULT_CFG = {"dec": ",", "tho": ".", "num": [2, True, True], "pct": [2, True, True], "mon": [False, True], "tz": "UTC"}


def cfg_with(**kw):
    c = dict(DEFAULT_CFG)
    c.update(kw)
    return c


SEP_CONFIGS = [(",", "."), (".", ","), (".", ""), (",", "")]

POOL_WORDS = ["zorp", "blip", "quux", "frob", "glorp", "snarf", "wibble", "foo", "bar", "baz", "qux", "ga", "bu", "meu", "zorps", "blips"]


def all_config_words(include_zones=True, include_currencies=True):
    """every word that means something to the calculator, lower-cased (Appendix B)"""
    c = config_json()
    words = set()
    if include_currencies:
        for k in c.get("currencies", {}):
            words.add(k.lower())
        for k in c.get("currency_alias", {}):
            words.add(k.lower())
    if include_zones:
        for k in c.get("timezones", {}):
            words.add(k.lower())
    for k in c.get("alias", {}):
        words.add(k.lower())
    for t in c.get("types", []):
        for it in t.get("items", []):
            for n in it.get("names", []):
                words.add(n.lower())
            for p in it.get("parse", []):
                for w in p.replace("{", " ").replace("}", " ").split():
                    words.add(w.lower())
    for lang, ld in c.get("languages", {}).items():
        for k in ld.get("long_months", {}):
            words.add(k.lower())
        for k in ld.get("short_months", {}):
            words.add(k.lower())
        for k in ld.get("alias", {}):
            words.add(k.lower())
        for k in ld.get("constant_pair", {}):
            words.add(k.lower())
        for g, ws in ld.get("word_group", {}).items():
            for w in ws:
                words.add(w.lower())
        fmt = ld.get("format", {})
        for sec in fmt.values():
            if isinstance(sec, dict):
                for v in sec.values():
                    if isinstance(v, str):
                        for w in v.split():
                            words.add(w.lower())
    words |= {"am", "pm", "k", "m", "g", "t", "p", "z", "y", "x", "b", "o"}
    return words


def check_pool_words():
    bad = [w for w in POOL_WORDS if w in all_config_words()]
    if bad:
        raise ToolError("pool words collide with configured words: %s" % bad)


def decimal_digits(fr):
    """(sign, integer digits str, fraction digits str) of a finite decimal Fraction"""
    fr = Fraction(fr)
    sign = "-" if fr < 0 else ""
    fr = abs(fr)
    ip = fr.numerator // fr.denominator
    rest = fr - ip
    fd = ""
    n = 0
    while rest != 0:
        rest *= 10
        d = rest.numerator // rest.denominator
        fd += str(d)
        rest -= d
        n += 1
        if n > 40:
            raise ToolError("not a finite decimal: %s" % fr)
    return sign, str(ip), fd


def number_text(fr, dec=",", tho=".", group=False):
    """a decimal literal in the configured convention"""
    sign, ip, fd = decimal_digits(fr)
    if group and tho and len(ip) > 3:
        parts = []
        while len(ip) > 3:
            parts.insert(0, ip[-3:])
            ip = ip[:-3]
        parts.insert(0, ip)
        ip = tho.join(parts)
    s = sign + ip
    if fd:
        if not dec:
            raise ToolError("fraction under an empty decimal separator")
        s += dec + fd
    return s


# ---------------------------------------------------------------------------------------------
# arithmetic token lists (Arith.tla)
# ---------------------------------------------------------------------------------------------
SPACINGS = ["none", "single", "double", "ragged", "glued_right"]


def arith_token_texts(toks, dec, tho):
    out = []
    for t in toks:
        if t["k"] == "num":
            fr = Fraction(t["m"][0], t["m"][1]) / (10 ** t.get("tiny", 0))
            out.append(number_text(fr, dec, tho) + t.get("sfx", ""))
        elif t["k"] == "op":
            out.append(t["c"])
        elif t["k"] == "lp":
            out.append("(")
        elif t["k"] == "rp":
            out.append(")")
        else:
            raise ToolError("unknown token " + str(t))
    return out


def is_prefix_op(toks, i):
    return toks[i]["k"] == "op" and (i == 0 or toks[i - 1]["k"] in ("op", "lp"))


def render_arith(toks, dec=",", tho=".", spacing="single", salt=""):
    """tokens -> text in one of the spacing patterns. Two adjacent literals are always separated by a blank."""
    texts = arith_token_texts(toks, dec, tho)
    rng = random.Random(short_hash([texts, spacing, salt]))
    s = ""
    n = len(toks)
    for i in range(n):
        s += texts[i]
        if i == n - 1:
            break
        a, b = toks[i], toks[i + 1]
        must = a["k"] == "num" and b["k"] == "num"
        if spacing == "none":
            gap = " " if must else ""
        elif spacing == "single":
            if is_prefix_op(toks, i):
                gap = ""
            elif a["k"] == "lp" or b["k"] == "rp":
                gap = ""
            else:
                gap = " "
        elif spacing == "double":
            gap = "  "
        elif spacing == "glued_right":
            # binary operators glued to their right operand: "2 -3 *4"
            if a["k"] == "op":
                gap = ""
            elif a["k"] == "lp" or b["k"] == "rp":
                gap = ""
            else:
                gap = " "
        elif spacing == "ragged":
            gap = " " * rng.randint(1 if must else 0, 3)
        else:
            raise ToolError("spacing " + spacing)
        s += gap
    if spacing == "ragged":
        s = " " * rng.randint(0, 2) + s + " " * rng.randint(0, 2)
    return s


def arith_features(toks):
    depth = 0
    maxd = 0
    neg_paren = False
    neg_mid = False
    adj = False
    sfx = set()
    for i, t in enumerate(toks):
        if t["k"] == "lp":
            depth += 1
            maxd = max(maxd, depth)
        elif t["k"] == "rp":
            depth -= 1
        elif t["k"] == "num":
            if t.get("sfx"):
                sfx.add(t["sfx"])
            if i + 1 < len(toks) and toks[i + 1]["k"] == "num":
                adj = True
        if is_prefix_op(toks, i):
            if i > 0:
                neg_mid = True
            if i + 1 < len(toks) and toks[i + 1]["k"] == "lp":
                neg_paren = True
    return {"paren_depth": maxd, "sign_before_paren": neg_paren, "sign_inside": neg_mid, "adjacent": adj,
            "suffixes": "".join(sorted(sfx))}


def date_like(toks):
    """num / num / num whose operands read as day, month and (positive whole) year: outside C02 (it is a date, C09);
    mirror of Arith!DateLike for the random driver"""
    for i in range(len(toks) - 4):
        w = toks[i:i + 5]
        if (w[0]["k"] == "num" and w[2]["k"] == "num" and w[4]["k"] == "num"
                and w[1]["k"] == "op" and w[1]["c"] == "/" and w[3]["k"] == "op" and w[3]["c"] == "/"):
            d = Fraction(w[0]["m"][0], w[0]["m"][1])
            m = Fraction(w[2]["m"][0], w[2]["m"][1])
            y = Fraction(w[4]["m"][0], w[4]["m"][1])
            if (d.denominator == 1 and m.denominator == 1 and y.denominator == 1 and 1 <= d <= 31 and 1 <= m <= 12 and y >= 1
                    and not w[0].get("sfx") and not w[2].get("sfx")):
                return True
    return False


# ---------------------------------------------------------------------------------------------
# literals of every kind (canonical spelling), use expressions, assignments, failing lines
# ---------------------------------------------------------------------------------------------
import datetime


def q_fraction(q):
    return Fraction(q[0], q[1]) * (10 ** q[2])


def civil_from_days(day):
    d = datetime.date(1970, 1, 1).toordinal() + day
    dt = datetime.date.fromordinal(d)
    return dt.year, dt.month, dt.day


def duration_text(d, s, lang="en"):
    total = d * 86400 + s
    sign = ""
    if total < 0:
        raise ToolError("negative duration literal")
    parts = []
    for name, size in (("days", 86400), ("hours", 3600), ("minutes", 60), ("seconds", 1)):
        n = total // size
        total -= n * size
        if n:
            parts.append("%d %s" % (n, name if n != 1 else name[:-1]))
    if not parts:
        parts = ["0 seconds"]
    return sign + " ".join(parts)


def lit_text(v, cfg):
    dec, tho = cfg["dec"], cfg["tho"]
    k = v["k"]
    if k == "num":
        return number_text(q_fraction(v["q"]), dec, tho)
    if k == "pct":
        return number_text(q_fraction(v["q"]), dec, tho) + "%"
    if k == "money":
        return number_text(q_fraction(v["q"]), dec, tho) + " " + v["cur"]
    if k == "unit":
        return number_text(q_fraction(v["q"]), dec, tho) + " " + v["u"]
    if k == "dur":
        return duration_text(v["d"], v["s"])
    if k == "date":
        y, m, d = civil_from_days(v["day"])
        return "%d/%d/%d" % (d, m, y)
    if k == "time":
        wall = (v["sod"] + v.get("off", 0) * 60) % 86400
        t = "%d:%02d:%02d" % (wall // 3600, wall % 3600 // 60, wall % 60)
        return t
    raise ToolError("no literal spelling for kind " + k)


def name_text(ws, case="lower"):
    """a variable name in another letter case - letter by letter, and only letters whose case mapping round-trips (a dotless i
    written as I would read back as another letter: that is another name, not another spelling of this one)"""
    def up(ch):
        u = ch.upper()
        return u if len(u) == 1 and u.lower() == ch else ch
    if case == "upper":
        return " ".join("".join(up(ch) for ch in w) for w in ws)
    if case == "title":
        return " ".join(up(w[:1]) + w[1:] for w in ws)
    return " ".join(ws)


# lines expected to fail: in the parser ("(", ...) and in the evaluation (well-formed, but no such operation)
FAIL_SPELLINGS = ["(", "2 hours * 3 hours", "3 + (", "5 km * 2 kg", ")", "10 usd * 2 usd"]


def render_line(line, cfg, case="lower", salt=""):
    f = line["form"]
    if f == "arith":
        return render_arith(line["toks"], cfg["dec"], cfg["tho"], "single", salt)
    if f == "blank":
        return ["", " ", "   "][int(short_hash(salt), 16) % 3]
    if f == "comment":
        return "# " + line.get("text", "zorp")
    if f == "lit":
        return lit_text(line["v"], cfg)
    if f == "use":
        out = []
        toks = line["toks"]
        for i, t in enumerate(toks):
            if t["k"] == "words":
                out.append(name_text(t["ws"], case))
            else:
                out.append(arith_token_texts([t], cfg["dec"], cfg["tho"])[0])
        # prefix sign glued to its operand
        s = ""
        for i, x in enumerate(out):
            s += x
            if i < len(out) - 1:
                if toks[i]["k"] == "op" and (i == 0 or toks[i - 1]["k"] in ("op", "lp")):
                    continue
                if toks[i]["k"] == "lp" or toks[i + 1]["k"] == "rp":
                    continue
                s += " "
        return s
    if f == "fail":
        return FAIL_SPELLINGS[int(short_hash(["f", salt]), 16) % len(FAIL_SPELLINGS)]
    if f == "assign":
        return name_text(line["name"], case) + " = " + render_line(line["rhs"], cfg, case, salt)
    raise ToolError("no rendering for form " + f)


# ---------------------------------------------------------------------------------------------
# language words (config.json of the tree under test)
# ---------------------------------------------------------------------------------------------
CONST_UNITS = {1: "day", 2: "week", 3: "month", 4: "year", 5: "second", 6: "minute", 7: "hour"}
CONST_DAYS = {8: "today", 9: "tomorrow", 10: "yesterday", 11: "now"}


def languages():
    return sorted(config_json()["languages"].keys())


def duration_words(lang):
    """unit -> every configured spelling of that duration unit in lang"""
    cp = config_json()["languages"][lang].get("constant_pair", {})
    grp = set(config_json()["languages"][lang].get("word_group", {}).get("duration_group", []))
    out = {}
    for w, c in cp.items():
        if c in CONST_UNITS and w in grp:
            out.setdefault(CONST_UNITS[c], []).append(w)
    return out


def conversion_words(lang):
    return list(config_json()["languages"][lang].get("word_group", {}).get("conversion_group", []))


def operator_words(lang):
    """operator character -> words of the language that mean it"""
    out = {}
    for w, t in config_json()["languages"][lang].get("alias", {}).items():
        if t.startswith("[OPERATOR:") and len(t) == 12:
            out.setdefault(t[10], []).append(w)
    return out


def dur_parts_text(parts, lang, widx=0, joiner=" "):
    words = duration_words(lang)
    out = []
    for i, p in enumerate(parts):
        ws = words[p["u"]]
        out.append("%d %s" % (p["n"], ws[(widx + i) % len(ws)]))
    return joiner.join(out)


# ---------------------------------------------------------------------------------------------
# zones and clock times (C11)
# ---------------------------------------------------------------------------------------------
import re as _re


def non_zone_words():
    c = config_json()
    words = all_config_words(include_zones=False)
    other = set()
    for k in c.get("currencies", {}):
        other.add(k.lower())
    for k in c.get("currency_alias", {}):
        other.add(k.lower())
    return words, other


GMT_FORMS = [("GMT+5:30", 330), ("GMT-3:30", -210), ("GMT+10", 600), ("GMT-10", -600), ("GMT+1", 60), ("GMT-11:30", -690),
             ("GMT+12:45", 765), ("GMT+0530", 330)]


def usable_zones():
    """zone table entries the zone syntax can express and that mean nothing else; [{'name','off'}] sorted by name"""
    c = config_json()
    words, _ = non_zone_words()
    out = []
    for name, off in sorted(c["timezones"].items()):
        if not _re.match(r"^[A-Z]{2,4}$", name):
            continue
        if name.lower() in words:
            continue
        out.append({"name": name, "off": off})
    return out


def zone_subset(zones, n=40):
    """stratified by offset: both signs, zero, half- and quarter-hour offsets first"""
    by_off = {}
    for z in zones:
        by_off.setdefault(z["off"], []).append(z)
    offs = sorted(by_off, key=lambda o: (o % 60 == 0, abs(o) % 7, o))
    out = []
    i = 0
    while len(out) < n and i < 4:
        for o in offs:
            if len(by_off[o]) > i and len(out) < n:
                out.append(by_off[o][i])
        i += 1
    return sorted(out, key=lambda z: z["name"])


def time_spellings(w, twelve=False):
    """every admissible spelling of wall second-of-day w; twelve: also 12:xx am (= 00:xx) and 12:xx pm (= 12:xx) - only C11 asks for
    them: the pinned tree reads 12:xx am as noon (known finding KF-C11-twelve-am)"""
    h, m, s = w // 3600, w % 3600 // 60, w % 60
    out = [("hms", "%d:%02d:%02d" % (h, m, s)), ("0hms", "%02d:%02d:%02d" % (h, m, s))]
    if s == 0:
        out.append(("hm", "%d:%02d" % (h, m)))
        if 1 <= h <= 11:
            out.append(("hm_am", "%d:%02d am" % (h, m)))
            out.append(("hm_AM", "%d:%02dAM" % (h, m)))
        if 13 <= h <= 23:
            out.append(("hm_pm", "%d:%02d pm" % (h - 12, m)))
            out.append(("hm_PM", "%02d:%02d PM" % (h - 12, m)))
        if twelve and h == 0:
            out.append(("hm_12am", "12:%02d am" % m))
        if twelve and h == 12:
            out.append(("hm_12pm", "12:%02d pm" % m))
        if m == 0:
            if 1 <= h <= 11:
                out.append(("h_am", "%d am" % h))
            if 13 <= h <= 23:
                out.append(("h_pm", "%dpm" % (h - 12)))
    return out


def zone_text(z, case="upper"):
    n = z["name"]
    if case == "lower" and not n.startswith("GMT"):
        return n.lower()
    return n


def time_text(w, z, sp, zcase="upper"):
    t = dict(time_spellings(w, True))[sp]
    return t if not z["name"] else t + " " + zone_text(z, zcase)


# ---------------------------------------------------------------------------------------------
# dates (C09)
# ---------------------------------------------------------------------------------------------
def month_names(lang):
    """month number -> {'long': [...], 'short': [...]} every configured name"""
    ld = config_json()["languages"][lang]
    out = {m: {"long": [], "short": []} for m in range(1, 13)}
    for n, m in ld.get("long_months", {}).items():
        out[m]["long"].append(n)
    for n, m in ld.get("short_months", {}).items():
        out[m]["short"].append(n)
    return out


def day_words(lang):
    cp = config_json()["languages"][lang].get("constant_pair", {})
    out = {}
    for w, c in cp.items():
        if c in (8, 9, 10):
            out.setdefault({8: 0, 9: 1, 10: -1}[c], []).append(w)
    return out


DATE_SPELLINGS = {"en": ["dmy", "d_mon_y", "mon_d_c_y", "mon_d_y"], "tr": ["dmy", "d_mon_y"]}


def word_case(w, case):
    """letter-case variant of a keyword; only where simple case mapping round-trips (not for dotless i etc.)"""
    if case == "upper" and w.upper().lower() == w and len(w.upper()) == len(w):
        return w.upper()
    if case == "title" and w[:1].upper().lower() == w[:1] and len(w[:1].upper()) == 1:
        return w[:1].upper() + w[1:]
    return w


def date_texts(a, lang, all_names=False, salt=0):
    """every spelling of date operand a = {'y','m','d'} (y = 0: no year) or {'rel': k}: [(variant, text)]"""
    if "rel" in a:
        ws = day_words(lang).get(a["rel"], [])
        return [("rel%d" % i, w) for i, w in enumerate(ws)]
    if a["m"] not in range(1, 13):
        return [("dmy", "%d/%d/%d" % (a["d"], a["m"], a["y"]))] if a["y"] else []
    names = month_names(lang)[a["m"]]
    cand = [("long", n) for n in names["long"]] + [("short", n) for n in names["short"]]
    if not all_names:
        cand = [cand[salt % len(cand)], cand[(salt // 3 + 1) % len(cand)]] if len(cand) > 1 else cand
    out = []
    seen = set()
    if a["y"] == 0:
        for i, (kind, n) in enumerate(cand):
            t = "%d %s" % (a["d"], word_case(n, ["lower", "title", "upper"][(salt + i) % 3]))
            if t not in seen:
                seen.add(t)
                out.append(("d_mon.%s%d" % (kind, i), t))
        return out
    out.append(("dmy", "%d/%d/%d" % (a["d"], a["m"], a["y"])))
    for i, (kind, n) in enumerate(cand):
        w = word_case(n, ["lower", "title", "upper"][(salt + i) % 3])
        for sp in DATE_SPELLINGS.get(lang, ["dmy", "d_mon_y"]):
            if sp == "d_mon_y":
                t = "%d %s %d" % (a["d"], w, a["y"])
            elif sp == "mon_d_c_y":
                t = "%s %d, %d" % (w, a["d"], a["y"])
            elif sp == "mon_d_y":
                t = "%s %d %d" % (w, a["d"], a["y"])
            else:
                continue
            if t not in seen:
                seen.add(t)
                out.append(("%s.%s%d" % (sp, kind, i), t))
    return out


# ---------------------------------------------------------------------------------------------
# money and percentages (C05, C06)
# ---------------------------------------------------------------------------------------------
def rated_currencies():
    return sorted(k.lower() for k in config_json().get("currency_rates", {}))


def unrated_currencies():
    """configured currencies without an entry in the rate table whose code means nothing else (no unit, month, zone, keyword)"""
    c = config_json()
    rated = set(rated_currencies())
    aliased = {v.lower() for v in c.get("currency_alias", {}).values()}
    other = all_config_words(include_zones=True, include_currencies=False) | {k.lower() for k in c.get("currency_alias", {})}
    return sorted(k.lower() for k in c.get("currencies", {}) if k.lower() not in rated and k.lower() not in other and k.lower() not in aliased and k.isalpha() and k.isascii())


def currency_spellings(code):
    """alias-table spellings of a currency: {'symbols': [...], 'words': [...]} (the code itself is always a word)"""
    al = config_json().get("currency_alias", {})
    syms, words = [], []
    for s, c in al.items():
        if c.lower() != code:
            continue
        if s.isascii() and s.isalpha():
            if s.lower() != code:
                words.append(s)
        elif not any(ch.isalnum() for ch in s):
            syms.append(s)
        # aliases with non-ASCII letters (e.g. Cyrillic) are word aliases too
        elif s.isalpha():
            words.append(s)
    return {"symbols": syms, "words": words}


def money_texts(q, code, cfg, every=False, salt=0, suffix=""):
    """spellings of an amount of money; q is the amount *before* the suffix is applied"""
    n = number_text(q_fraction(q), cfg["dec"], cfg["tho"]) + suffix
    sp = currency_spellings(code)
    # Appendix B: an amount of 0 glued to a code that starts with b, o or x spells the prefix of a based literal (0bdt, 0xaf)
    based_hazard = n.lstrip("+-") == "0" and code[:1].lower() in "box"
    out = [("code", "%s %s" % (n, code)), ("CODE", "%s %s" % (n, code.upper())), ("glued", "%s%s" % (n, code)) if not suffix and not based_hazard else ("code2", "%s  %s" % (n, code))]
    for s in sp["symbols"]:
        out.append(("sym_before", "%s%s" % (s, n)))
        out.append(("sym_after", "%s %s" % (n, s)))
        if not suffix:
            out.append(("sym_glued", "%s%s" % (n, s)))
    for w in sp["words"]:
        out.append(("alias", "%s %s" % (n, w)))
        if w.upper().lower() == w and w.upper() != w:
            out.append(("ALIAS", "%s %s" % (n, w.upper())))
    if every:
        return out
    return [out[salt % len(out)]]


def pct_text(p, cfg, style, group=False):
    n = number_text(q_fraction(p), cfg["dec"], cfg["tho"], group=group)
    return n + "%" if style == "after" else "%" + n


def operand_texts(x, cfg, every=False, salt=0):
    if x["cur"] == "":
        return [("num", number_text(q_fraction(x["q"]), cfg["dec"], cfg["tho"]))]
    return money_texts(x["q"], x["cur"], cfg, every, salt)


# ---------------------------------------------------------------------------------------------
# unit quantities (C12)
# ---------------------------------------------------------------------------------------------
def unit_tables():
    """canonical unit name (first configured name) -> {'lit': words a literal may be written with (parse patterns),
    'names': words a conversion target may be written with}"""
    out = {}
    for t in config_json().get("types", []):
        for it in t.get("items", []):
            lit = []
            for p in it.get("parse", []):
                last = p.split()[-1]
                w = last[1:-1].split(":")[-1] if last.startswith("{") else last
                if w not in lit:
                    lit.append(w)
            out[it["names"][0]] = {"lit": lit, "names": list(it["names"]), "group": t["name"], "index": it["index"]}
    return out


def unit_texts(x, cfg, every=False, salt=0):
    tab = unit_tables()[x["u"]]
    n = number_text(q_fraction(x["q"]), cfg["dec"], cfg["tho"])
    out = [("w%d" % i, "%s %s" % (n, w)) for i, w in enumerate(tab["lit"])]
    return out if every else [out[salt % len(out)]]
