"""Replay-side agreement of an observed slot with the slot TLC emitted (mirror of Values!Matches with a
numeric tolerance instead of exact rationals: TLC gives the exact expectation, the f64 is compared at 1e-9)."""
from vlib import close, q_to_fraction

OZ_MG = 28349.5231     # 1 oz = 28.3495231 g (statement of C12)
VALUE_KINDS = {"num", "pct", "money", "unit", "dur", "date", "time", "datetime"}
SLOT_KINDS = VALUE_KINDS | {"err", "empty", "none", "other"}


def fnum(slot):
    f = slot.get("f")
    try:
        x = float(f)
    except Exception:
        return None
    return x if x == x and x not in (float("inf"), float("-inf")) else None


def match_slot(exp, slot):
    if slot is None:
        return False
    k = exp["k"]
    if k in ("unspec", "fails"):
        return slot["k"] in SLOT_KINDS
    if k in ("empty", "err"):
        return slot["k"] == k
    if k == "term":
        return match_term(exp, slot)
    if k == "baseline":
        return bool(slot.get("same_as_base"))
    if k == "famq":
        return slot["k"] == "unit" and slot.get("group") == exp["fam"] and slot.get("index") == exp["idx"] and close(q_to_fraction(exp["q"]), fnum(slot))
    if k == "uterm":
        if exp.get("inv"):
            if slot["k"] != "num":
                return False
        elif slot["k"] != "unit" or slot.get("u") != exp["u"]:
            return False
        x = fnum(slot)
        v = float(q_to_fraction(exp["mul"])) * (OZ_MG ** exp["oz"]) * (2.0 ** exp["e2"])
        if "add" in exp:        # arithmetic: add + v, add - v (mul carries the sign) or add / v
            a = float(q_to_fraction(exp["add"]))
            v = (0.0 if v == 0 else a / v) if exp.get("inv") else a + v
        return x is not None and abs(x - v) <= 1e-9 * max(abs(v), 1e-300)
    if k == "notunits":
        return slot["k"] in SLOT_KINDS and (slot["k"] != "unit" or slot.get("u") not in exp["us"])
    if k == "int":
        if slot["k"] != "num" or slot.get("bits") != exp["bits"]:
            return False
        return exp["base"] == 0 or slot.get("pr") == exp["pr"]
    if k == "ts":
        want = [exp["d"], exp["s"]]
        return slot["k"] == "num" and slot.get("ts") == want and slot.get("pr", want) == want
    if k == "notkind":
        return slot["k"] in SLOT_KINDS and slot["k"] != exp["kind"]
    if slot["k"] != k:
        return False
    if k in ("num", "pct", "money", "unit"):
        if not close(q_to_fraction(exp["q"]), fnum(slot)):
            return False
        if k == "money":
            return slot.get("cur") == exp["cur"]
        if k == "unit":
            return slot.get("u") == exp["u"]
        return True
    if k == "dur":
        if "parts" in exp and "parts" in slot and slot["parts"] != exp["parts"]:
            return False
        return slot["d"] == exp["d"] and slot["s"] == exp["s"]
    if k == "date":
        if "civil" in exp and "pr" in slot:
            pr, c = slot["pr"], exp["civil"]
            if pr[0] != c["d"] or pr[1] != c["m"] or not (pr[2] == c["y"] or (pr[2] == 0 and c["y"] == exp.get("cury"))):
                return False
        return slot["day"] == exp["day"]
    if k == "time":
        if "pr" in exp and "pr" in slot and slot["pr"] != exp["pr"]:
            return False
        return slot["sod"] == exp["sod"] and slot["off"] == exp["off"]
    if k == "datetime":
        if "civil" in exp and "pr" in slot:
            pr, c = slot["pr"], exp["civil"]
            if pr[0] != c["d"] or pr[1] != c["m"] or not (pr[2] == c["y"] or (pr[2] == 0 and c["y"] == exp.get("cury"))):
                return False
            if pr[3] != exp["wall"] or pr[4] != exp["zone"]:
                return False
        return slot["d"] == exp["d"] and slot["s"] == exp["s"] and slot["off"] == exp["off"]
    return False


def failure_kind(slot, step):
    oc = step.get("outcome") if step else None
    if oc in ("panic", "crash", "hang"):
        return oc
    if slot is None:
        return "no_slot"
    if slot["k"] == "err":
        return "error"
    return "wrong"


def _rate(ref):
    from vlib import config_json
    if "q" in ref:
        return float(q_to_fraction(ref["q"]))
    return float(config_json()["currency_rates"][ref["cfg"]])


def term_value(t):
    """value of a term over configured rates (spec/Money.tla), in double precision"""
    r = _rate(t["num"]) / _rate(t["den"])
    add, mul = float(q_to_fraction(t["add"])), float(q_to_fraction(t["mul"]))
    if t["inv"]:
        d = mul * r
        return 0.0 if d == 0 else add / d
    return add + mul * r


def match_term(exp, slot):
    if slot["k"] != exp["kind"]:
        return False
    if exp["kind"] == "money" and slot.get("cur") != exp["cur"]:
        return False
    x = fnum(slot)
    if x is None:
        return False
    v = term_value(exp)
    return abs(x - v) <= 1e-9 * max(abs(v), 1e-3)
