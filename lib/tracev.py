"""Trace validation glue: write ndjson events, run Trace.tla under TLC, return the disagreements TLC reports."""
import json
import os

from vlib import OUT, ToolError, tlc


def reset_event(cfg, today=0, extra=None):
    tz = cfg.get("tz", "UTC")
    tzr = tz if isinstance(tz, dict) else {"name": tz, "off": cfg.get("tz_off", 0)}
    e = {"ev": "reset", "cfg": {"dec": cfg["dec"], "tho": cfg["tho"], "num": cfg["num"], "pct": cfg["pct"],
                               "mon": cfg["mon"], "tz": tzr}, "today": today}
    if extra:
        e.update(extra)
    return e


CHUNK = 40000      # events per TLC run: a longer trace is cut at reset events (each cut starts from a fresh calculator, as the trace itself says)


def validate_trace(rep, events, tag, timeout=1800):
    if len(events) <= CHUNK + CHUNK // 2:
        return _validate(rep, events, tag, timeout)
    bad = []
    start = 0
    k = 0
    while start < len(events):
        end = min(start + CHUNK, len(events))
        while end < len(events) and events[end].get("ev") != "reset":
            end += 1
        for b in _validate(rep, events[start:end], "%s.part%d" % (tag, k), timeout):
            b = dict(b)
            b["l"] += start
            bad.append(b)
        start = end
        k += 1
    return bad


def _validate(rep, events, tag, timeout=1800):
    d = os.path.join(OUT, "run")
    os.makedirs(d, exist_ok=True)
    path = os.path.join(d, tag + ".trace.ndjson")
    with open(path, "w", encoding="utf-8") as f:
        for e in events:
            f.write(json.dumps(e, ensure_ascii=False) + "\n")
    r = tlc("Trace", "Trace", workers=1, timeout=timeout, env={"TRACE": path}, heap="4g")
    rep.add_tlc("Trace(%s)" % tag, r)
    if r.violated or r.error:
        raise ToolError("trace %s not consumed by Trace.tla: %s %s" % (path, r.violated or r.error, r.info))
    rep.trace_events += len(events)
    return r.bad
