"""The rule table of the tree under test, in the vocabulary of spec/Pipeline.tla (DESIGN 4.1, 14.7).
Reads config.json (rule patterns, type groups, word groups) and the date-rule patterns of smartcalc.rs."""
import json
import os
import re

from vlib import OUT, REPO, config_json

OUT_KIND = {"time_with_timezone": "TIME", "convert_timezone": "same", "to_unixtime": "NUMBER", "from_unixtime": "DATE_TIME", "convert_money": "MONEY",
            "number_type_convert": "NUMBER", "number_on": "same_operand", "number_of": "same_operand", "number_off": "same_operand", "division_cleanup": "same",
            "find_numbers_percent": "PERCENT", "find_total_from_percent": "same", "duration_parse": "DURATION", "combine_durations": "DURATION", "as_duration": "DURATION",
            "to_duration": "DURATION", "at_date": "DATE_TIME", "dynamic_type_convert": "DYNAMIC_TYPE", "percent_calculator": "NUMBER", "small_date": "DATE"}
KINDS = ["NUMBER", "TEXT", "PERCENT", "MONEY", "TIME", "DATE", "DATE_TIME", "DURATION", "TIMEZONE", "MONTH", "DYNAMIC_TYPE"]
FIELD = re.compile(r"\{([A-Z_]+):([^:}]*)(?::([^}]*))?\}")


def date_patterns(lang):
    """the small_date patterns are in src/smartcalc.rs: SmartCalc::default() calls set_date_rule("<lang>", vec![...]) per language"""
    src = open(os.path.join(REPO, "src", "smartcalc.rs"), encoding="utf-8").read()
    m = re.search(r'set_date_rule\(\s*"%s"\s*,\s*vec!\[(.*?)\]\s*\)' % re.escape(lang), src, re.S)
    if not m:
        return []
    return re.findall(r'"([^"]*)"\.to_string\(\)', m.group(1))


def matcher_list(pattern, lang):
    c = config_json()
    tg = c.get("type_group", {})
    wg = c["languages"][lang].get("word_group", {})
    out = []
    i = 0
    while i < len(pattern):
        ch = pattern[i]
        if ch == " ":
            i += 1
            continue
        m = FIELD.match(pattern, i)
        if m:
            kind, name, extra = m.group(1), m.group(2), m.group(3)
            if kind == "GROUP":
                out.append({"m": "word", "ws": sorted(wg.get(extra, [])) or ["\u0000none"], "ks": [], "c": ""})
            elif kind == "TEXT" and extra:
                out.append({"m": "word", "ws": [extra.lower()], "ks": [], "c": ""})
            elif kind in tg:
                out.append({"m": "kind", "ks": list(tg[kind]), "ws": [], "c": ""})
            else:
                out.append({"m": "kind", "ks": [kind], "ws": [], "c": ""})
            i = m.end()
            continue
        m = re.compile(r"[^\W\d_]+", re.UNICODE).match(pattern, i)
        if m:
            out.append({"m": "word", "ws": [m.group(0).lower()], "ks": [], "c": ""})
            i = m.end()
            continue
        out.append({"m": "op", "c": ch, "ks": [], "ws": []})
        i += 1
    return out


def rule_table(lang="en"):
    c = config_json()
    # the engine's order: the date rule first (SmartCalc::set_date_rule inserts it at the front), then the named rules in the
    # order of their names (a BTreeMap)
    rules = [{"name": "small_date", "pats": [matcher_list(p, lang) for p in date_patterns(lang)], "out": "DATE"}]
    for name in sorted(c["languages"][lang]["rules"]):
        pats = c["languages"][lang]["rules"][name]["rules"]
        rules.append({"name": name, "pats": [matcher_list(p, lang) for p in pats], "out": OUT_KIND.get(name, "same")})
    return rules


def write_rules(lang="en"):
    os.makedirs(os.path.join(OUT, "run"), exist_ok=True)
    p = os.path.join(OUT, "run", "rules.%s.json" % lang)
    with open(p, "w", encoding="utf-8") as f:
        # the connective / unit / currency words of the model checker's token alphabet, in the language of the table
        words = {"en": ["to", "as", "hours", "of", "usd", "date"], "tr": ["arası", "saat", "of", "usd", "gün", "on"]}.get(lang, ["usd"])
        json.dump({"rules": rule_table(lang), "words": words}, f, ensure_ascii=False)
    return p


if __name__ == "__main__":
    for r in rule_table("en"):
        print(r["name"], r["out"], [[(m["m"], m["ks"] or m["ws"] or m["c"]) for m in p] for p in r["pats"]][:2])
