"""Python mirror of spec/Rational.tla, used ONLY to keep randomly generated cases inside TLC's 32-bit
integer range (every intermediate the TLA+ operators compute is re-computed here with a range check).
It never contributes to a verdict: expected values are always computed by TLC."""
from math import gcd

LIM = 2 ** 31 - 1


class Overflow(Exception):
    pass


def ck(x):
    if abs(x) > LIM:
        raise Overflow()
    return x


def pow10(k):
    r = 1
    for _ in range(max(k, 0)):
        r = ck(r * 10)
    return r


def strip(n, d, e):
    while n != 0 and n % 1000 == 0:
        n //= 1000
        e += 3
    return (n, d, e)


def absorb(n, d, e):
    while e > 0 and gcd(d, 1000) > 1:
        n = ck(n * 1000)
        g = gcd(abs(n), d)
        n, d, e = n // g, d // g, e - 3
    return (n, d, e)


def tens_of(n):
    j = 0
    while n != 0 and n % 10 == 0:
        n //= 10
        j += 1
    return j


def norm(n, d, e):
    if n == 0:
        return (0, 1, 0)
    r = e % 3
    if r:
        n, e = ck(n * 10 ** r), e - r
    g = gcd(abs(n), abs(d))
    s = -1 if d < 0 else 1
    return strip(*absorb(ck(s * n) // g, ck(s * d) // g, e))


def q(n, d=1):
    return norm(n, d, 0)


def neg(a):
    return (-a[0], a[1], a[2])


def aligned(a, m):
    return ck(a[0] * pow10(a[2] - m))


def add(a, b):
    m = min(a[2], b[2])
    g = gcd(a[1], b[1])
    x = ck(aligned(a, m) * (b[1] // g))
    y = ck(aligned(b, m) * (a[1] // g))
    return norm(ck(x + y), ck((a[1] // g) * b[1]), m)


def sub(a, b):
    return add(a, neg(b))


def mul(a, b):
    if a[0] == 0 or b[0] == 0:
        return (0, 1, 0)
    g1 = gcd(abs(a[0]), b[1])
    g2 = gcd(abs(b[0]), a[1])
    x, y = a[0] // g1, b[0] // g2
    jx, jy = tens_of(x), tens_of(y)
    return norm(ck((x // 10 ** jx) * (y // 10 ** jy)), ck((a[1] // g2) * (b[1] // g1)), a[2] + b[2] + jx + jy)


def div(a, b):
    if b[0] == 0:
        return (0, 1, 0)
    i = (-b[1], -b[0]) if b[0] < 0 else (b[1], b[0])
    p = mul((a[0], a[1], 0), (i[0], i[1], 0))
    if a[2] >= b[2]:
        return norm(p[0], p[1], p[2] + a[2] - b[2])
    k = b[2] - a[2] - p[2]
    if k <= 0:
        return norm(p[0], p[1], -k)
    return div_pow10(p[0], p[1], k)


def div_pow10(n, d, k):
    while k > 0:
        if n % 10 == 0:
            n //= 10
        elif n % 5 == 0:
            n, d = n // 5, ck(d * 2)
        elif n % 2 == 0:
            n, d = n // 2, ck(d * 5)
        else:
            d = ck(d * 10)
        k -= 1
    return norm(n, d, 0)


def apply(op, a, b):
    return {"+": add, "-": sub, "*": mul, "/": div}[op](a, b)
