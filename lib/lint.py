"""Consistency of the word tables of config.json that the renderers trust (month names, duration and day keywords): spellings
of one language that differ only by diacritics (the ASCII forms config.json lists next to the proper ones: agu / ağu, yil / yıl,
subat / şubat) must denote the same thing. The renderers read these tables from the tree under test, so a wrong number next to
one spelling would otherwise be rendered and expected consistently with the code."""
import unicodedata

from vlib import config_json

_MAP = {"ı": "i", "İ": "i", "ø": "o", "ß": "ss", "æ": "ae", "đ": "d", "ł": "l"}


def fold(s):
    out = []
    for ch in unicodedata.normalize("NFKD", s):
        if unicodedata.combining(ch):
            continue
        out.append(_MAP.get(ch, ch))
    return "".join(out).lower()


def conflicts(tables=("long_months", "short_months", "constant_pair")):
    """[(language, table, folded spelling, {spelling: value})] for spellings that fold together but carry different values"""
    out = []
    for lang, ld in sorted(config_json()["languages"].items()):
        for t in tables:
            groups = {}
            for w, v in ld.get(t, {}).items():
                groups.setdefault(fold(w), {})[w] = v
            for f, ws in sorted(groups.items()):
                if len(set(ws.values())) > 1:
                    out.append((lang, t, f, ws))
    return out


_cache = {}


def model_findings(rep):
    """every offending entry TLC finds in the configuration tables (spec/Config.tla, lenient configuration): [{inv, what}]"""
    import configmodel
    from vlib import ToolError, tlc
    key = id(rep)
    if key not in _cache:
        r = tlc("Config", "MC_Config", workers=2, timeout=600, env={"CONFIGMODEL": configmodel.write()}, want_cases=False)
        if r.error or r.violated:
            raise ToolError("Config.tla did not evaluate the configuration tables: %s" % (r.violated or r.error))
        rep.add_tlc("MC_Config", r)
        _cache[key] = r.info
    return _cache[key]


GATING = {"spellings that differ only by diacritics name different months", "spellings that differ only by diacritics mean different things",
          "a month name is bound to another month", "a duration word or day keyword is bound to another meaning"}
FOLD_RULES = {"spellings that differ only by diacritics name different months", "spellings that differ only by diacritics mean different things"}


def report(rep, tables, form):
    """the word-table part of the configuration model gates (the renderers trust these tables); every other finding of the model is
    reported in the evidence under coverage.config_model and changes no exit code (DESIGN 14.10)"""
    other = []
    for f in model_findings(rep):
        w = f["what"]
        if f["inv"] in GATING and w.get("table") in tables:
            rep.violation({"check": "config", "form": form, "text": "config.json languages.%s.%s" % (w["lang"], w["table"]), "spellings": sorted({w["a"], w["b"]}), "rule": f["inv"],
                           "feat": {"form": form, "failure": "spellings_that_differ_only_by_diacritics_disagree" if f["inv"] in FOLD_RULES else "word_bound_to_another_meaning",
                                    "lang": w["lang"], "table": w["table"]},
                           "class": "config|%s|%s|%s" % (w["lang"], w["table"], w["fold"])})
        elif f["inv"] not in GATING:
            other.append(f)
    rep.extra["config_model"] = {"findings": len(other), "examples": other[:8]}
    # the Python twin of the fold rule stays as a cross-check of the TLC run (same answer or a tool error)
    twin = {(l, t, f) for l, t, f, _ in conflicts(tables)}
    mine = {(f["what"]["lang"], f["what"]["table"], f["what"]["fold"]) for f in model_findings(rep) if f["inv"] in FOLD_RULES and f["what"].get("table") in tables}
    if twin != mine:
        from vlib import ToolError
        raise ToolError("configuration lint: TLC and the Python twin disagree: %s vs %s" % (sorted(mine), sorted(twin)))
