"""Consistency of the word tables of config.json that the renderers trust (month names, duration and day keywords): spellings
of one language that differ only by diacritics (the ASCII forms config.json lists next to the proper ones: agu / ağu, yil / yıl,
subat / şubat) must denote the same thing. The renderers read these tables from the tree under test, so a wrong number next to
one spelling would otherwise be rendered and expected consistently with the code."""
import unicodedata

from vlib import config_json

_MAP = {"ı": "i", "İ": "i", "ø": "o", "ß": "ss", "æ": "ae", "đ": "d", "ł": "l"}


def fold(s):
    out = []
    for ch in unicodedata.normalize("NFKD", s):
        if unicodedata.combining(ch):
            continue
        out.append(_MAP.get(ch, ch))
    return "".join(out).lower()


def conflicts(tables=("long_months", "short_months", "constant_pair")):
    """[(language, table, folded spelling, {spelling: value})] for spellings that fold together but carry different values"""
    out = []
    for lang, ld in sorted(config_json()["languages"].items()):
        for t in tables:
            groups = {}
            for w, v in ld.get(t, {}).items():
                groups.setdefault(fold(w), {})[w] = v
            for f, ws in sorted(groups.items()):
                if len(set(ws.values())) > 1:
                    out.append((lang, t, f, ws))
    return out


def report(rep, tables, form):
    for lang, t, f, ws in conflicts(tables):
        rep.violation({"check": "config", "form": form, "text": "config.json languages.%s.%s" % (lang, t), "spellings": ws,
                       "feat": {"form": form, "failure": "spellings_that_differ_only_by_diacritics_disagree", "lang": lang, "table": t},
                       "class": "config|%s|%s|%s" % (lang, t, f)})
