#!/usr/bin/env python3
"""Development-time self-validation (DESIGN 10): apply one mutant to /repo's working tree, run a property's quick
check, restore the tree. usage: lib/mutate.py <mutant-name> <PROPERTY> [tier]
Mutants: notes/mutant-candidates.json (search/replace) or mutants/<name>.diff / seeded/<name>/patch.diff."""
import json
import os
import subprocess
import sys

VERIF = os.path.dirname(os.path.dirname(os.path.abspath(__file__)))
REPO = "/repo"


def main():
    name, prop = sys.argv[1], sys.argv[2]
    tier = sys.argv[3] if len(sys.argv) > 3 else "quick"
    st = subprocess.run(["git", "-C", REPO, "status", "--porcelain"], capture_output=True, text=True).stdout.strip()
    if st:
        print("repo working tree not clean:", st)
        return 2
    applied = False
    try:
        diff = None
        for p in (os.path.join(VERIF, "mutants", name + ".diff"), os.path.join(VERIF, "seeded", name, "patch.diff")):
            if os.path.exists(p):
                diff = p
        if diff:
            r = subprocess.run(["git", "-C", REPO, "apply", diff])
            if r.returncode != 0:
                print("patch does not apply")
                return 2
        else:
            ms = json.load(open(os.path.join(VERIF, "notes", "mutant-candidates.json")))
            m = [x for x in ms if x["name"] == name][0]
            path = os.path.join(REPO, m["file"])
            s = open(path).read()
            for r in m["replace"]:
                if r["old"] not in s:
                    print("pattern not found:", r["old"][:60])
                    return 2
                s = s.replace(r["old"], r["new"], 1)
            open(path, "w").write(s)
        applied = True
        p = subprocess.run([os.path.join(VERIF, "bin", "check"), prop, "--tier", tier], capture_output=True, text=True)
        lines = [l for l in p.stdout.splitlines() if l.startswith("VIOLATION") or l.startswith("KNOWN")]
        print("mutant %s on %s: exit %d, %d VIOLATION lines" % (name, prop, p.returncode, len([l for l in lines if l.startswith("VIOLATION")])))
        for l in p.stderr.splitlines():
            if "class=" in l:
                print("   ", l.strip()[:300])
                break
        if p.returncode == 2:
            print(p.stderr[-1500:])
        return 0
    finally:
        if applied:
            subprocess.run(["git", "-C", REPO, "checkout", "--", "."])


sys.exit(main())
