#!/usr/bin/env python3
"""Development-time tool (never run by a registered check): confirm a seeded change and run checks against it.

  lib/seedcheck.py confirm <seed-dir> <worktree>         applies patch.diff in the scratch worktree, runs the suite (142/1 expected),
                                                         runs demo.rs with and without the change
  lib/seedcheck.py scratch <seed-dir> <worktree> <PROP>..  runs the quick checks against the worktree with the patch applied, through a private
                                                         copy of the harness (nothing in /repo or /verif/out, /verif/evidence is touched)
  lib/seedcheck.py repo <seeded-dir> <PROP>..            git -C /repo apply, run the quick checks from /verif, git -C /repo checkout -- .
"""
import json
import os
import re
import shutil
import subprocess
import sys

VERIF = os.path.dirname(os.path.dirname(os.path.abspath(__file__)))


def sh(cmd, cwd=None, env=None, timeout=3600):
    p = subprocess.run(cmd, cwd=cwd, env=env, shell=isinstance(cmd, str), stdout=subprocess.PIPE, stderr=subprocess.STDOUT, text=True, timeout=timeout)
    return p.returncode, p.stdout


def suite(wt):
    rc, out = sh("cargo test --offline 2>&1 | grep -E '^test result' | head -1", cwd=wt)
    m = re.search(r"(\d+) passed; (\d+) failed", out)
    return (int(m.group(1)), int(m.group(2))) if m else (0, -1)


def demo(wt):
    rc, out = sh("cargo test --offline --test demo 2>&1 | grep -E '^test result|error(\\[|:)' | head -3", cwd=wt)
    m = re.search(r"(\d+) passed; (\d+) failed", out)
    return (int(m.group(1)), int(m.group(2))) if m else (0, -1)


def confirm(seed, wt):
    sh("git checkout -- . && rm -f tests/demo.rs", cwd=wt)
    rc, out = sh(["git", "apply", os.path.join(seed, "patch.diff")], cwd=wt)
    if rc != 0:
        return {"ok": False, "why": "patch does not apply: " + out[-300:]}
    res = {"suite_with_change": suite(wt)}
    os.makedirs(os.path.join(wt, "tests"), exist_ok=True)
    shutil.copy(os.path.join(seed, "demo.rs"), os.path.join(wt, "tests", "demo.rs"))
    res["demo_with_change"] = demo(wt)
    sh("git checkout -- .", cwd=wt)
    res["demo_without_change"] = demo(wt)
    sh("rm -rf tests/demo.rs; rmdir tests 2>/dev/null; git checkout -- .", cwd=wt)
    res["ok"] = (res["suite_with_change"] == (142, 1) and res["demo_with_change"][1] >= 1 and res["demo_without_change"][1] == 0 and res["demo_without_change"][0] >= 1)
    return res


def run_checks(props, env=None):
    out = {}
    for p in props:
        rc, o = sh([os.path.join(VERIF, "bin", "check"), p, "--tier", "quick"], cwd=VERIF, env=env)
        viol = [l for l in o.splitlines() if l.startswith("VIOLATION")]
        classes = [l.strip()[:260] for l in o.splitlines() if "class=" in l][:3]
        out[p] = {"exit": rc, "violation_lines": len(viol), "classes": classes}
        if rc == 2:
            out[p]["tail"] = o[-600:]
    return out


def scratch(seed, wt, props):
    tag = os.path.basename(wt.rstrip("/"))
    h = "/tmp/h_" + tag
    if not os.path.exists(h):
        shutil.copytree(os.path.join(VERIF, "harness"), h, ignore=shutil.ignore_patterns("target"))
        t = open(os.path.join(h, "Cargo.toml")).read().replace('path = "/repo"', 'path = "%s"' % wt)
        open(os.path.join(h, "Cargo.toml"), "w").write(t)
    else:
        for f in os.listdir(os.path.join(VERIF, "harness", "src")):
            shutil.copy(os.path.join(VERIF, "harness", "src", f), os.path.join(h, "src", f))
    sh("git checkout -- .", cwd=wt)
    rc, head = sh("git -C /repo rev-parse HEAD")
    sh(["git", "checkout", "-q", "--detach", head.strip()], cwd=wt)      # the scratch worktree follows /repo's HEAD (fix commits)
    rc, out = sh(["git", "apply", os.path.join(seed, "patch.diff")], cwd=wt)
    if rc != 0:
        return {"error": "patch does not apply: " + out[-200:]}
    env = dict(os.environ, VERIF_REPO=wt, VERIF_HARNESS=h, VERIF_OUT="/tmp/o_" + tag, VERIF_EVIDENCE="/tmp/o_" + tag + "/evidence")
    try:
        return run_checks(props, env)
    finally:
        sh("git checkout -- .", cwd=wt)


def repo(seeded, props):
    seeded = os.path.abspath(seeded)
    rc, st = sh("git -C /repo status --porcelain")
    if st.strip():
        return {"error": "/repo working tree not clean"}
    rc, out = sh(["git", "-C", "/repo", "apply", os.path.join(seeded, "patch.diff")])
    if rc != 0:
        return {"error": "patch does not apply to /repo: " + out[-200:]}
    try:
        return run_checks(props, dict(os.environ, VERIF_EVIDENCE="/tmp/seed_evidence"))
    finally:
        sh("git -C /repo checkout -- .")


if __name__ == "__main__":
    mode = sys.argv[1]
    if mode == "confirm":
        print(json.dumps(confirm(sys.argv[2], sys.argv[3])))
    elif mode == "scratch":
        print(json.dumps(scratch(sys.argv[2], sys.argv[3], sys.argv[4:])))
    elif mode == "repo":
        print(json.dumps(repo(sys.argv[2], sys.argv[3:])))
