"""C03 A text is a straight-line program: later lines see the latest binding (DESIGN 7, C03).

 S  MC_SmartCalc: LatestBinding, FailKeepsEnv, LoopIsRunLines ... on the system model (TLC, exhaustive, small constants)
 G  Gen_Prog: TLC enumerates every program of <= 4 lines over a 12-line alphabet with the expected slots; each is
    executed as one multi-line text and line by line through one re-used session
 T  random programs of 20..50 lines over 6 names; the recorded session trace is validated by TLC (Trace.tla)
"""
import random

import compare
import proj
import render
from tracev import reset_event, validate_trace
from vlib import ToolError, run_harness_stable_day, short_hash, tlc, tlc_must_pass

LEVEL = "model_checking"
CFG = render.cfg_with()
CASES = ["lower", "upper", "title"]


def mc_system(rep, quick):
    r = tlc_must_pass("MC_SmartCalc", "MC_SmartCalc" if quick else "MC_SmartCalc_thorough", workers=8, timeout=1500)
    rep.add_tlc("MC_SmartCalc(safety)", r)
    r = tlc_must_pass("MC_SmartCalc", "MC_SmartCalc_live", workers=8, timeout=900)
    rep.add_tlc("MC_SmartCalc(liveness)", r)


def run(rep):
    quick = rep.tier == "quick"
    render.check_pool_words()
    rep.rule = ("TLC enumerates all programs of <= 4 (thorough 5) lines over the line alphabet of Gen_Prog.tla; a case = one program in one "
                "execution mode (multi-line text / line by line through a re-used session) and one letter-case pattern of the names; "
                "non-trivial = at least one line whose expected slot is a value that was read from a binding. Random part: programs of "
                "20..50 lines over 6 names, session trace validated by TLC.")
    rep.assumptions = ["renderer lib/render.py", "projection lib/proj.py", "names are only compared after a successful binding (Unspec otherwise)",
                       "failing spellings '(' , '3 + (' , ')' : if one does not fail, the names it may have bound become unspecified"]
    mc_system(rep, quick)
    g = tlc("Gen_Prog", "Gen_Prog" if quick else "Gen_Prog_thorough", workers=8, timeout=1800, heap="8g")
    if not g.ok:
        raise ToolError("Gen_Prog failed: %s" % (g.violated or g.error))
    rep.add_tlc("Gen_Prog", g)
    g2 = tlc("Gen_Prog", "Gen_Prog_kinds" if quick else "Gen_Prog_kinds_thorough", workers=8, timeout=1800, heap="8g")
    if not g2.ok:
        raise ToolError("Gen_Prog(kinds) failed: %s" % (g2.violated or g2.error))
    rep.add_tlc("Gen_Prog(kinds)", g2)
    if not any(e["k"] in ("money", "unit", "dur", "term") and l["form"] == "use" and len(l["toks"]) == 3 for c in g2.cases for l, e in zip(c["lines"], c["expected"])):
        raise ToolError("vacuous generator: no computed value of another kind")
    gen = sorted(g.cases + g2.cases, key=lambda c: c["prog"])
    if not quick and len(gen) > 150000:
        rng = random.Random(rep.seed)
        gen = rng.sample(gen, 150000)
    kinds_seen = set()
    for c in gen:
        for e in c["expected"]:
            kinds_seen.add(e["k"])
    need = {"num", "money", "pct", "dur", "unit", "date", "time", "fails", "unspec"}
    if not need <= kinds_seen:
        raise ToolError("vacuous generator: slot kinds %s never expected" % (need - kinds_seen))
    cases = []
    meta = {}
    for gi, c in enumerate(gen):
        h = int(short_hash(c["prog"]), 16)
        case = CASES[h % 3]
        texts = [render.render_line(l, CFG, case if i % 2 else "lower", salt=str(i)) for i, l in enumerate(c["lines"])]
        nl = "\r\n" if h % 5 == 0 else "\n"
        cid = "p%d.text" % gi
        cases.append({"id": cid, "cfg": CFG, "steps": [{"op": "execute", "lang": "en", "text": nl.join(texts)}]})
        meta[cid] = (c, texts, "text")
        steps = [{"op": "session_new", "s": "s"}, {"op": "set_language", "s": "s", "lang": "en"}]
        for t in texts:
            steps.append({"op": "set_text", "s": "s", "text": t})
            steps.append({"op": "execute_session", "s": "s"})
        cid = "p%d.sess" % gi
        cases.append({"id": cid, "cfg": CFG, "steps": steps})
        meta[cid] = (c, texts, "session")
    obs = run_harness_stable_day(cases, "c03.gen", jobs=8)
    for case, o in zip(cases, obs):
        c, texts, mode = meta[case["id"]]
        steps = o.get("steps")
        slots = []
        stepobs = []
        if steps is None:
            slots = [None] * len(texts)
            stepobs = [o] * len(texts)
        elif mode == "text":
            ss = proj.slots_of_step(steps[0])
            if ss is None or not ss[0] or len(ss[1]) != len(texts):
                slots = [None] * len(texts)
            else:
                slots = ss[1]
            stepobs = [steps[0]] * len(texts)
        else:
            for i in range(len(texts)):
                st = steps[2 + 2 * i + 1]
                ss = proj.slots_of_step(st)
                slots.append(ss[1][0] if ss and ss[0] and len(ss[1]) == 1 else None)
                stepobs.append(st)
        reads = any(l["form"] == "use" or (l["form"] == "assign" and l["rhs"]["form"] == "use") for l, e in zip(c["lines"], c["expected"])
                    if e["k"] in compare.VALUE_KINDS)
        rep.case([c["prog"], mode], reads)
        rep.replayed += 1
        if len(rep.samples) < 3 and reads and len(texts) >= 3:
            rep.sample({"mode": mode, "lines": texts, "expected": c["expected"], "observed": slots})
        for i, (exp, slot) in enumerate(zip(c["expected"], slots)):
            if not compare.match_slot(exp, slot):
                kind = compare.failure_kind(slot, stepobs[i])
                line = c["lines"][i]
                rep.violation({"check": "replay", "form": line["form"], "text": texts, "line_index": i, "mode": mode, "cfg": CFG,
                               "expected": c["expected"], "observed": slots if slot is not None else stepobs[i],
                               "feat": {"failure": kind, "mode": mode, "form": line["form"], "exp_kind": exp["k"], "alpha": c["prog"][i]},
                               "class": "%s|%s|%s|%s|a%d" % (kind, mode, line["form"], exp["k"], c["prog"][i])})
                break
            if exp["k"] == "fails" and slot["k"] != "err":
                break   # the failing spelling did not fail: what it bound is unspecified, stop comparing this program
    random_trace(rep, 150 if quick else 2500)
    phrases_through_variables(rep, 60 if quick else 600)
    chains(rep)


# ------------------------------------------------------------------------------------------------------
# "every occurrence of the name in a later line denotes the most recently bound value" - also where the occurrence is the
# operand of a phrase (conversion, shift, difference, percentage phrase).  Meaning.tla, form "via": if the name is bound
# to the value of the operand, the phrase written with the name means what the phrase written with the operand means.
# The phrase lines, their texts and their expectations are those TLC generated for the owning properties; the operand is
# the leading part of the text whose own evaluation yields the operand's value (checked against the specification's
# value for it) and that ends where the phrase's connective starts.
# ------------------------------------------------------------------------------------------------------
CONNECTIVES = {"to", "in", "as", "into", "at", "+", "-"}
DUR_SECS = {"second": 1, "minute": 60, "hour": 3600, "day": 86400, "week": 7 * 86400, "month": 30 * 86400, "year": 365 * 86400}


def operand_value(line, cfg):
    """the specification's value of the leading operand of a phrase line, or None where the form has none we handle"""
    import datetime
    f = line["form"]
    if f == "money_conv":
        return {"k": "money", "q": line["x"]["q"], "cur": line["x"]["cur"]}
    if f == "unit_conv":
        return {"k": "unit", "q": line["x"]["q"], "u": line["x"]["u"]}
    if f == "pct_phrase" and line["w"] in ("+", "-"):
        x = line["x"]
        return {"k": "money", "q": x["q"], "cur": x["cur"]} if x["cur"] else {"k": "num", "q": x["q"]}
    if f in ("date_shift", "date_diff", "unix_to_date", "dt_at", "dt_unix", "dt_shift", "dt_conv"):
        a = line["a"]
        if "rel" in a or not a.get("y"):
            return None
        try:
            return {"k": "date", "day": (datetime.date(a["y"], a["m"], a["d"]) - datetime.date(1970, 1, 1)).days}
        except ValueError:
            return None
    if f in ("time_conv", "time_shift", "time_diff"):
        z = line["z"]
        off = z["off"] if z["name"] else cfg.get("tz_off", 0)
        if not z["name"] and cfg.get("tz", "UTC") != "UTC" and "tz_off" not in cfg:
            return None
        return {"k": "time", "sod": (line["w"] - off * 60) % 86400, "off": off}
    if f == "dur_as":
        t = sum(p["n"] * DUR_SECS[p["u"]] for p in line["parts"])
        return {"k": "dur", "d": t // 86400, "s": t % 86400}
    if f in ("unix_from", "unix_round"):
        return {"k": "num", "q": [line["ts"]["d"] * 86400 + line["ts"]["s"], 1, 0]}
    return None


def chains(rep):
    """a name bound to a value that only arises as a result (a time moved by 25 or 49 hours, a date moved by days), then used as the
    operand of a phrase: Gen_Chain.tla enumerates the two-line programs with both expected slots (form `via`); each is run as one
    text and line by line through a re-used session"""
    import forms
    from props import c09, c11
    g = tlc("Gen_Chain", "Gen_Chain", workers=4, timeout=600)
    if not g.ok or len(g.cases) < 100:
        raise ToolError("Gen_Chain failed: %s" % (g.violated or g.error))
    rep.add_tlc("Gen_Chain", g)
    NOZ = {"name": "", "off": 0}
    cases, metas = [], []
    seqs = [c for c in g.cases if c["lines"][-1]["form"] == "dur_seq"]
    if len(seqs) < 30:
        raise ToolError("Gen_Chain: no dur_seq programs")
    duration_sequences(rep, sorted(seqs, key=lambda x: json_key(x)))
    for ci, c in enumerate(sorted((x for x in g.cases if x["lines"][-1]["form"] != "dur_seq"), key=lambda x: json_key(x))):
        l1, l2 = c["lines"]
        rhs, ph = l1["rhs"], l2["phrase"]
        name = " ".join(l1["name"])
        # (12:xx am is the known finding of C11's literal forms: not written here)
        from props import c05, c06, c10, c12
        if rhs["form"] == "time_shift":
            first = [r for r in c11.renderings(rhs, ci, True) if "12am" not in r[0]][0][1]
        elif rhs["form"] == "date_shift":
            first = c09.renderings(rhs, "en", ci, False)[0][1]
        elif rhs["form"] == "money_arith":
            first = c06.renderings(rhs, CFG, ci, False)[0][1]
        elif rhs["form"] == "pct_phrase":
            first = c05.renderings(rhs, CFG, ci, False)[0][1]
        elif rhs["form"] in ("unit_conv", "unit_arith"):
            first = c12.renderings(rhs, CFG, ci, False)[0][1]
        else:
            first = c10.renderings(rhs, "en", True, ci)[0][1]
        f = ph["form"]
        if f == "money_conv":
            second = "%s to %s" % (name, ph["target"])
        elif f == "money_arith":
            second = "%s %s %s" % (name, ph["op"], render.money_texts(ph["r"]["q"], ph["r"]["cur"], CFG)[0][1])
        elif f == "pct_phrase":
            second = "%s %s %s" % (render.pct_text(ph["p"], CFG, "after"), ph["w"], name)
        elif f == "unit_conv":
            second = "%s to %s" % (name, ph["target"])
        elif f == "unit_arith":
            second = "%s %s %s" % (name, ph["op"], render.number_text(render.q_fraction(ph["r"]["q"])))
        elif f == "dur_as":
            second = "%s as %ss" % (name, ph["target"])
        elif f == "dur_arith":
            second = "%s %s %s" % (name, ph["op"], render.dur_parts_text(ph["b"], "en", ci))
        elif f == "time_diff":
            second = "%s to %s" % (name, render.time_text(ph["w2"], ph["z2"] if ph["z2"]["name"] else NOZ, render.time_spellings(ph["w2"])[ci % 2][0]))
        elif f == "time_conv":
            second = "%s to %s" % (name, ph["z2"]["name"])
        elif f == "time_shift":
            second = "%s %s %s" % (name, ph["op"], render.dur_parts_text(ph["parts"], "en", ci))
        elif f == "date_diff":
            second = "%s to %s" % (name, render.date_texts(ph["b"], "en", False, ci)[0][1])
        else:
            second = "%s %s %d %s" % (name, ph["op"], ph["n"], "days" if ph["n"] != 1 else "day")
        texts = ["%s = %s" % (name, first), second]
        ccfg = CFG if c["tz"]["off"] == 0 else render.cfg_with(tz=c["tz"]["name"], tz_off=c["tz"]["off"])
        c["_cfg"] = ccfg
        cases.append({"id": "ch%d.text" % ci, "cfg": ccfg, "steps": [{"op": "execute", "lang": "en", "text": "\n".join(texts)}]})
        metas.append((c, texts, "text"))
        steps = [{"op": "session_new", "s": "s"}, {"op": "set_language", "s": "s", "lang": "en"}]
        for t in texts:
            steps += [{"op": "set_text", "s": "s", "text": t}, {"op": "execute_session", "s": "s"}]
        cases.append({"id": "ch%d.sess" % ci, "cfg": ccfg, "steps": steps})
        metas.append((c, texts, "session"))
        if rhs["form"] == "date_shift" and f in ("date_diff", "date_shift"):
            # a calendar date held by a name stays that calendar date when the default zone is changed between the two lines
            z = ["GMT+5:30", "EST", "GMT-11:30"][ci % 3]
            steps = [{"op": "session_new", "s": "s"}, {"op": "set_language", "s": "s", "lang": "en"},
                     {"op": "set_text", "s": "s", "text": texts[0]}, {"op": "execute_session", "s": "s"}, {"op": "set_tz", "v": z},
                     {"op": "set_text", "s": "s", "text": texts[1]}, {"op": "execute_session", "s": "s"}]
            cases.append({"id": "ch%d.zone" % ci, "cfg": CFG, "fresh": True, "steps": steps})
            metas.append((c, texts, "session, zone changed in between"))
    obs = run_harness_stable_day(cases, "c03.chain", jobs=8)
    for (c, texts, mode), o in zip(metas, obs):
        steps = o.get("steps") or []
        if mode == "text":
            ss = proj.slots_of_step(steps[0]) if steps else None
            slots = ss[1] if ss and ss[0] and len(ss[1]) == 2 else [None, None]
        else:
            slots = []
            for k in ((3, 6) if mode.endswith("in between") else (3, 5)):
                ss = proj.slots_of_step(steps[k]) if len(steps) > k else None
                slots.append(ss[1][0] if ss and ss[0] and len(ss[1]) == 1 else None)
        rep.case(["chain", texts, mode], True)
        rep.replayed += 1
        for i, (exp, slot) in enumerate(zip(c["expected"], slots)):
            if slot is not None:
                forms.project_extra(slot, {"lang": "en", "cfg": c["_cfg"]})
            if not compare.match_slot(exp, slot):
                kind = compare.failure_kind(slot, steps[0] if steps else o)
                rep.violation({"check": "replay", "form": "chain", "text": texts, "mode": mode, "line_index": i, "cfg": c["_cfg"], "expected": c["expected"], "observed": slots,
                               "feat": {"failure": kind, "form": "chain", "phrase": c["lines"][1]["phrase"]["form"], "first": c["lines"][0]["rhs"]["form"], "mode": mode},
                               "class": "%s|chain|%s then %s|%s|line%d" % (kind, c["lines"][0]["rhs"]["form"], c["lines"][1]["phrase"]["form"], mode, i + 1)})
                break


def duration_sequences(rep, progs):
    """durations held by names, written next to each other and mixed with written-out durations (C10: they add; C03: a name
    denotes its value): Gen_Chain's `dur_seq` programs, each as one text and through a session line by line"""
    import forms
    from props import c10
    cases, metas = [], []
    for ci, c in enumerate(progs):
        texts = []
        for li, l in enumerate(c["lines"]):
            if l["form"] == "assign":
                texts.append("%s = %s" % (" ".join(l["name"]), c10.renderings(l["rhs"], "en", True, ci + li)[0][1]))
            else:
                texts.append(" ".join(" ".join(it["name"]) if "name" in it else render.dur_parts_text(it["parts"], "en", ci) for it in l["items"]))
        cases.append({"id": "ds%d.text" % ci, "cfg": CFG, "steps": [{"op": "execute", "lang": "en", "text": "\n".join(texts)}]})
        metas.append((c, texts, "text"))
        steps = [{"op": "session_new", "s": "s"}, {"op": "set_language", "s": "s", "lang": "en"}]
        for t in texts:
            steps += [{"op": "set_text", "s": "s", "text": t}, {"op": "execute_session", "s": "s"}]
        cases.append({"id": "ds%d.sess" % ci, "cfg": CFG, "steps": steps})
        metas.append((c, texts, "session"))
    obs = run_harness_stable_day(cases, "c03.durseq", jobs=4)
    for (c, texts, mode), o in zip(metas, obs):
        steps = o.get("steps") or []
        n = len(texts)
        if mode == "text":
            ss = proj.slots_of_step(steps[0]) if steps else None
            slots = ss[1] if ss and ss[0] and len(ss[1]) == n else [None] * n
        else:
            slots = []
            for k in range(3, 3 + 2 * n, 2):
                ss = proj.slots_of_step(steps[k]) if len(steps) > k else None
                slots.append(ss[1][0] if ss and ss[0] and len(ss[1]) == 1 else None)
        rep.case(["durseq", texts, mode], True)
        rep.replayed += 1
        for i, (exp, slot) in enumerate(zip(c["expected"], slots)):
            if not compare.match_slot(exp, slot):
                kind = compare.failure_kind(slot, steps[0] if steps else o)
                rep.violation({"check": "replay", "form": "chain", "text": texts, "mode": mode, "line_index": i, "cfg": CFG, "expected": c["expected"], "observed": slots,
                               "feat": {"failure": kind, "form": "chain", "phrase": "dur_seq", "first": "dur_lit", "mode": mode, "items": len(c["lines"][-1]["items"])},
                               "class": "%s|chain|dur_seq|%s|items=%d|line%d" % (kind, mode, len(c["lines"][-1]["items"]), i + 1)})
                break
    if cases:
        rep.sample({"duration_sequence": metas[0][1]})


def json_key(x):
    import json as _j
    return _j.dumps(x, sort_keys=True)


def trailing_operand_value(line, cfg):
    """the specification's value of the operand a phrase ends with, or None"""
    import datetime
    f = line["form"]
    if f == "date_diff":
        b = line["b"]
        if "rel" in b or not b.get("y"):
            return None
        try:
            return {"k": "date", "day": (datetime.date(b["y"], b["m"], b["d"]) - datetime.date(1970, 1, 1)).days}
        except ValueError:
            return None
    if f == "time_diff":
        z = line["z2"]
        if not z["name"] and "tz_off" not in cfg and cfg.get("tz", "UTC") != "UTC":
            return None
        off = z["off"] if z["name"] else cfg.get("tz_off", 0)
        return {"k": "time", "sod": (line["w2"] - off * 60) % 86400, "off": off}
    if f == "date_shift" and line["u"] in ("day", "week") and line["n"] * (7 if line["u"] == "week" else 1) < 30:
        return {"k": "dur", "d": line["n"] * (7 if line["u"] == "week" else 1), "s": 0}
    if f in ("time_shift", "dt_shift"):
        t = sum(p["n"] * DUR_SECS[p["u"]] for p in line["parts"])
        return {"k": "dur", "d": t // 86400, "s": t % 86400}
    if f == "dur_arith":
        t = sum(p["n"] * DUR_SECS[p["u"]] for p in line["b"])
        return {"k": "dur", "d": t // 86400, "s": t % 86400}
    if f == "pct_phrase" and line["w"] in ("of", "on", "off"):
        x = line["x"]
        return {"k": "money", "q": x["q"], "cur": x["cur"]} if x["cur"] else {"k": "num", "q": x["q"]}
    if f == "money_arith" and line["r"].get("cur"):
        return {"k": "money", "q": line["r"]["q"], "cur": line["r"]["cur"]}
    if f == "unit_arith" and line["r"].get("u"):
        return {"k": "unit", "q": line["r"]["q"], "u": line["r"]["u"]}
    return None


def phrases_through_variables(rep, per_form, modules=None, min_forms=8, tag="c03.via"):
    import forms
    from props import c05, c06, c09, c10, c11, c12, c14
    rng = random.Random(rep.seed * 977 + 3)
    by_form = {}
    for m, home in (modules or ((c05, "C05"), (c06, "C06"), (c09, "C09"), (c10, "C10"), (c11, "C11"), (c12, "C12"), (c14, "C14"))):
        for it in forms.collect(m, rep, home=home):
            if it.get("lang", "en") != "en" or it.get("pre") or it.get("today") is not None or it["expected"]["k"] in ("unspec", "fails"):
                continue
            if "\n" in it["text"] or "=" in it["text"] or "#" in it["text"]:
                continue
            ov = operand_value(it["line"], it["cfg"])
            if ov is not None:
                by_form.setdefault(it["line"]["form"], []).append((it, ov, False))
            tv = trailing_operand_value(it["line"], it["cfg"])
            if tv is not None:
                by_form.setdefault(it["line"]["form"] + ".last", []).append((it, tv, True))
    if len(by_form) < min_forms:
        raise ToolError("vacuous: phrase forms with a leading operand: %s" % sorted(by_form))
    picked = []
    for f in sorted(by_form):
        its = by_form[f]
        picked += its if len(its) <= per_form else rng.sample(its, per_form)
    cases, meta = [], []
    for n, (it, ov, last) in enumerate(picked):
        toks = it["text"].strip().split(" ")
        name = " ".join(NAMES[n % len(NAMES)])
        if last:
            # the operand the phrase ends with starts behind a connective (`of`, `on`, `off`, `to`, an operator)
            ks = [k + 1 for k in range(len(toks) - 2, 0, -1) if toks[k].lower() in CONNECTIVES | {"of", "on", "off", "*", "/"}]
            steps = [{"op": "execute", "lang": "en", "text": "%s = %s\n%s %s" % (name, " ".join(toks[k:]), " ".join(toks[:k]), name)} for k in dict.fromkeys(ks) if 1 <= k < len(toks)]
            if steps:
                cases.append({"id": "via%d" % n, "cfg": it["cfg"], "steps": steps[:4]})
                meta.append((it, ov, last))
            continue
        # the operand ends where the phrase's connective starts (or, in a keyword-less conversion, before the last word); a
        # connective-looking word may belong to the operand (`5 in to cm`), hence every candidate is tried in order
        ks = [k for k in range(1, len(toks)) if toks[k].lower() in CONNECTIVES] + [len(toks) - 1]
        steps = []
        for k in dict.fromkeys(ks):
            if 1 <= k < len(toks):
                steps.append({"op": "execute", "lang": "en", "text": "%s = %s\n%s %s" % (name, " ".join(toks[:k]), name, " ".join(toks[k:]))})
        if steps:
            cases.append({"id": "via%d" % n, "cfg": it["cfg"], "steps": steps[:4]})
            meta.append((it, ov, last))
    obs = run_harness_stable_day(cases, tag, jobs=8)
    used = 0
    forms_used = set()
    for case, (it, ov, last), o in zip(cases, meta, obs):
        for st_in, st in zip(case["steps"], o.get("steps") or []):
            ss = proj.slots_of_step(st)
            if not ss or not ss[0] or len(ss[1]) != 2 or not compare.match_slot(ov, ss[1][0]):
                continue
            used += 1
            forms_used.add(it["line"]["form"] + (".last" if last else ""))
            rep.case(["via", st_in["text"], it["cfg"]], True)
            rep.replayed += 1
            slot = ss[1][1]
            forms.project_extra(slot, it)
            if not compare.match_slot(it["expected"], slot):
                kind = compare.failure_kind(slot, st)
                rep.violation({"check": "replay", "form": "via", "text": st_in["text"].split("\n"), "phrase": it["line"], "cfg": it["cfg"],
                               "expected": [ov, it["expected"]], "observed": ss[1],
                               "feat": {"failure": kind, "form": "via", "phrase": it["line"]["form"], "operand": "last" if last else "first"},
                               "class": "%s|via|%s|%s" % (kind, it["line"]["form"], "last" if last else "first")})
            break
    rep.extra["phrases_through_variables"] = {"phrase_lines": len(cases), "operand_found_and_checked": used, "forms": sorted(forms_used)}
    if used < len(cases) // 2 or len(forms_used) < min_forms:
        raise ToolError("vacuous: the operand of only %d of %d phrase lines could be bound to a name (forms %s)" % (used, len(cases), sorted(forms_used)))


# the last name has letters whose upper-case form is shorter in UTF-8 (dotless i): whatever follows it on the line - a month name, a zone -
# must still be found at the right place
# and a three-word name whose words are names themselves (longest match; what follows a replaced multi-word name must still be looked at)
# and names with non-ASCII letters that do have another letter case (case-insensitive means: for them too)
NAMES = [["zorp"], ["zorp", "blip"], ["quux"], ["frob"], ["frob", "glorp"], ["snarf"], ["sıkı", "ılık"], ["snarf", "quux", "zorp"], ["ölçü"], ["süt", "ölçüsü"]]
if any(w in render.all_config_words() for n in NAMES for w in n):
    raise ToolError("a variable name of C03 collides with a configured word")


def rand_value(rng, i):
    x = rng.randint(1, 400)
    k = rng.choice(["num", "num", "num", "money", "pct", "dur", "unit", "date", "time"])
    q = [x, 1, 0]
    if x % 1000 == 0:
        q = [x // 1000, 1, 3]
    if k == "num":
        if rng.random() < 0.3:
            from vlib import fraction_to_q
            from fractions import Fraction
            q = fraction_to_q(Fraction(x, rng.choice([2, 4, 5, 10])))
        return {"k": "num", "q": q}
    if k == "money":
        return {"k": "money", "q": q, "cur": rng.choice(["usd", "eur", "try"])}
    if k == "pct":
        return {"k": "pct", "q": q}
    if k == "dur":
        return {"k": "dur", "d": rng.randint(0, 3), "s": rng.randint(0, 86399)}
    if k == "unit":
        return {"k": "unit", "q": q, "u": rng.choice(["km", "m", "kg"])}
    if k == "date":
        return {"k": "date", "day": rng.randint(-200000, 2000000)}
    return {"k": "time", "sod": rng.randint(0, 86399), "off": 0, "zone": "UTC"}


def W(ws):
    return {"k": "words", "ws": ws}


def num_tok(x):
    return {"k": "num", "m": [x, 1], "sfx": ""}


def rand_line(rng, i, bound_num, bound_any, kinds=None):
    x = rng.random()
    if kinds and rng.random() < 0.15:
        # computing with a bound value of another kind (Meaning!MixedValue)
        scal = [n for n in NAMES if kinds.get(tuple(n)) in ("money", "unit")]
        durs = [n for n in NAMES if kinds.get(tuple(n)) == "dur"]
        if scal and (not durs or rng.random() < 0.6):
            return {"form": "use", "toks": [W(rng.choice(scal)), {"k": "op", "c": rng.choice("*/")}, num_tok(rng.randint(2, 4))]}
        if durs:
            return {"form": "use", "toks": [W(rng.choice(durs)), {"k": "op", "c": rng.choice("+-")}, W(rng.choice(durs))]}
    if x < 0.30 or not bound_any:
        name = rng.choice(NAMES)
        return {"form": "assign", "name": name, "rhs": {"form": "lit", "v": rand_value(rng, i)}}
    if x < 0.40:
        return {"form": "assign", "name": rng.choice(NAMES), "rhs": {"form": "use", "toks": [W(rng.choice(bound_any))]}}
    if x < 0.50 and bound_num:
        n = rng.choice(bound_num)
        return {"form": "assign", "name": n, "rhs": {"form": "use", "toks": [W(n), {"k": "op", "c": rng.choice("+-*")}, num_tok(rng.randint(1, 3))]}}
    if x < 0.70:
        return {"form": "use", "toks": [W(rng.choice(bound_any))]}
    if x < 0.78 and bound_num:
        return {"form": "use", "toks": [{"k": "op", "c": "-"}, W(rng.choice(bound_num))]}
    if x < 0.84 and len(bound_num) >= 1:
        return {"form": "use", "toks": [W(rng.choice(bound_num)), {"k": "op", "c": rng.choice("+-")}, W(rng.choice(bound_num))]}
    if x < 0.88 and len(bound_num) >= 1:
        # names written side by side (one run of words: the longest bound name wins at every position; values side by side are added),
        # also behind an operator
        run = W(rng.choice(bound_num) + rng.choice(bound_num) + (rng.choice(bound_num) if rng.random() < 0.3 else []))
        if rng.random() < 0.5:
            return {"form": "use", "toks": [run]}
        return {"form": "use", "toks": [W(rng.choice(bound_num)), {"k": "op", "c": rng.choice("+-*")}, run]}
    if x < 0.94:
        return {"form": "fail", "name": []}
    return {"form": "assign", "name": rng.choice(NAMES), "rhs": {"form": "fail", "name": []}}


def random_trace(rep, nprog):
    """random long programs; values are tracked only to choose operands sensibly (which names are numeric);
    every expectation is computed by TLC from the trace."""
    rng = random.Random(rep.seed * 104729 + 3)
    cases = []
    for pi in range(nprog):
        n = rng.randint(20, 50)
        lines = []
        kind = {}
        for i in range(n):
            bound_any = [nm for nm in NAMES if tuple(nm) in kind]
            bound_num = [nm for nm in NAMES if kind.get(tuple(nm)) == "num"]
            # keep numeric magnitudes small: names that were multiplied often are dropped from the numeric pool
            l = rand_line(rng, i, bound_num, bound_any, kind)
            if l["form"] == "assign":
                r = l["rhs"]
                nm = tuple(l["name"])
                if r["form"] == "lit":
                    kind[nm] = r["v"]["k"]
                elif r["form"] == "use":
                    ws = [t for t in r["toks"] if t["k"] == "words"]
                    if len(r["toks"]) == 1:
                        kind[nm] = kind.get(tuple(ws[0]["ws"]), "?")
                    else:
                        kind[nm] = "num?"    # arithmetic result: not used as an operand again (keeps TLC's integers small)
            lines.append(l)
        case = rng.choice(CASES)
        texts = [render.render_line(l, CFG, case if rng.random() < 0.5 else "lower", salt="%d.%d" % (pi, i)) for i, l in enumerate(lines)]
        mode = rng.choice(["text", "session", "chunks"])
        steps = [{"op": "session_new", "s": "s"}, {"op": "set_language", "s": "s", "lang": "en"}]
        chunks = []
        if mode == "text":
            chunks = [list(range(n))]
        elif mode == "session":
            chunks = [[i] for i in range(n)]
        else:
            i = 0
            while i < n:
                k = rng.randint(1, 6)
                chunks.append(list(range(i, min(n, i + k))))
                i += k
        for ch in chunks:
            steps.append({"op": "set_text", "s": "s", "text": "\n".join(texts[i] for i in ch)})
            steps.append({"op": "execute_session", "s": "s"})
        cases.append({"id": "r%d" % pi, "cfg": CFG, "steps": steps, "_lines": lines, "_texts": texts, "_chunks": chunks})
    send = [{k: v for k, v in c.items() if not k.startswith("_")} for c in cases]
    obs = run_harness_stable_day(send, "c03.rand", jobs=8)
    events = []
    index = []
    for c, o in zip(cases, obs):
        events.append(reset_event(CFG, o.get("day0", 0)))
        index.append(None)
        events.append({"ev": "session_new", "s": "s"})
        index.append(None)
        events.append({"ev": "set_language", "s": "s", "lang": "en"})
        index.append(None)
        steps = o.get("steps") or []
        for ci, ch in enumerate(c["_chunks"]):
            events.append({"ev": "set_text", "s": "s", "lines": [c["_lines"][i] for i in ch]})
            index.append(None)
            st = steps[2 + 2 * ci + 1] if len(steps) > 2 + 2 * ci + 1 else o
            ss = proj.slots_of_step(st)
            if ss is None:
                status, slots = True, [{"k": st.get("outcome", "panic")}]
            else:
                status, slots = ss
            events.append({"ev": "execute_session", "s": "s", "status": status, "obs": [proj.trace_slot(s) for s in slots]})
            index.append((c, ch, st, slots))
            rep.case([c["id"], ci], True)
    bad = validate_trace(rep, events, "c03")
    for b in bad:
        c, ch, st, slots = index[b["l"] - 1]
        texts = [c["_texts"][i] for i in ch]
        exp = b["expected"]
        # first disagreeing line of the chunk
        li = 0
        for li, (e, s) in enumerate(zip(exp, slots)):
            if not compare.match_slot(e, s):
                break
        line = c["_lines"][ch[li]] if li < len(ch) else {"form": "?"}
        kind = compare.failure_kind(slots[li] if li < len(slots) else None, st)
        rep.violation({"check": "trace", "form": line["form"], "text": texts, "program_so_far": c["_texts"][:ch[-1] + 1], "cfg": CFG,
                       "expected": exp, "observed": slots,
                       "feat": {"failure": kind, "mode": "random", "form": line["form"]},
                       "class": "%s|random|%s" % (kind, line["form"])})
    if cases:
        rep.sample({"random_program": cases[0]["_texts"][:8], "chunks": cases[0]["_chunks"][:4]})
