"""C16 Blanks, comments and letter case of keywords never change a value (DESIGN 7, C16).

 S  true of the specification by construction: spacing, comments and letter case are rendering attributes, no operator of
    Meaning.tla can observe them (LineMeaning is a function of the abstract line); blank and comment lines mean Empty
 G  a stratified sample of the cases TLC enumerates for the other properties (arithmetic, percentages, money, dates, durations, times,
    units, radix, timestamps), each rewritten with (i) widened gaps and blanks at both ends, (ii) a trailing '# comment' from a pool that
    contains digits, operators, keywords, a month name and a unit name, (iii) UPPER / Title case of currency codes, month names, zone
    names and connective keywords; the expectation is the one TLC computed for the unmodified line; blank-only / comment-only lines
 T  the same rewritings applied to randomly chosen cases with random gap widths and comment texts; validated by TLC (Trace.tla)
"""
import random
import re

import forms
import render
from props import c05, c06, c09, c10, c11, c12, c13, c14
from vlib import ToolError, short_hash, tlc

LEVEL = "model_checking"
CONNECTIVES = {"to", "of", "on", "off", "as", "in", "into", "at", "is", "what"}
# (month names from both ends of the year and in both languages: a month named in the comment must not disturb the months of the line)
COMMENTS = ["note", "5 + 3", "to usd", "december 5", "5 december 2020", "10 km", "%", "zorp = 3", "0x1F * 2", "#", "11:30 EST", "today",
            "may change", "was 3 January", "FEB report", "ocak raporu", "1 oca",
            # a comment runs to the end of the line, whatever it contains - another `#` too
            "paid in march # see invoice", "1 march, #2 april", "# # december"]
WORD = re.compile(r"[^\W\d_]+", re.UNICODE)


def keyword_classes():
    c = render.config_json()
    cur = {k.lower() for k in c["currencies"]} | {k.lower() for k in c["currency_alias"] if k.isalpha()}
    months = set()
    for lang, ld in c["languages"].items():
        months |= {k.lower() for k in ld.get("long_months", {})} | {k.lower() for k in ld.get("short_months", {})}
    zones = {k.lower() for k in c["timezones"]}
    return {"currency": cur, "month": months, "zone": zones, "connective": set(CONNECTIVES)}


def widen(text, rng):
    out = []
    i = 0
    n = len(text)
    while i < n:
        ch = text[i]
        if ch == " ":
            j = i
            while j < n and text[j] == " ":
                j += 1
            rest = text[j:j + 2].lower()
            before = text[i - 1] if i else ""
            if rest in ("am", "pm") and before.isdigit():
                out.append(text[i:j])                 # the am / pm marker belongs to the time literal
            else:
                out.append(" " * (j - i + rng.randint(1, 3)))
            i = j
        else:
            out.append(ch)
            i += 1
    return " " * rng.randint(0, 3) + "".join(out) + " " * rng.randint(0, 3)


def recase(text, mode, classes, which=None):
    """UPPER / Title case for the words of the keyword classes; a word directly after a digit is left alone ('5 in' is five inches,
    '10 usd' keeps its code in one lexeme but codes are case-insensitive: they are recased too when separated by a blank)"""
    kw = set()
    for k, ws in classes.items():
        if which is None or k in which:
            kw |= ws
    units = set()
    for u, tab in render.unit_tables().items():
        units |= {w.lower() for w in tab["lit"]} | {w.lower() for w in tab["names"]}
    out = []
    last = 0
    changed = False
    for m in WORD.finditer(text):
        w = m.group(0)
        out.append(text[last:m.start()])
        last = m.end()
        lw = w.lower()
        prev = text[:m.start()].rstrip(" ")
        glued_to_digit = m.start() > 0 and text[m.start() - 1].isdigit()
        after_number = bool(prev) and prev[-1].isdigit()
        is_last = text[m.end():].split("#")[0].strip() == ""
        if lw in kw and not glued_to_digit and not (lw in units and (after_number or is_last)) and lw not in ("am", "pm"):
            nw = render.word_case(lw, mode)
            if nw != w:
                changed = True
            out.append(nw)
        else:
            out.append(w)
    out.append(text[last:])
    return "".join(out), changed


def cls(kind, feat):
    return "%s|%s|%s|%s" % (kind, feat.get("form"), feat.get("rewrite"), feat.get("detail", ""))


def variants(it, rng, classes, every):
    base = it["text"]
    out = []
    out.append(("blanks", "", widen(base, rng)))
    cs = COMMENTS if every else [COMMENTS[rng.randrange(len(COMMENTS))], COMMENTS[rng.randrange(len(COMMENTS))]]
    for c in cs:
        out.append(("comment", c, base + rng.choice([" ", "  ", ""]) + "# " + c))
    for mode in ("upper", "title"):
        t, changed = recase(base, mode, classes)
        if changed:
            out.append(("case", mode, t))
    return out


def run(rep):
    quick = rep.tier == "quick"
    per = 120 if quick else 3000
    render.check_pool_words()
    rep.rule = ("a seeded sample (%d per generator) of the cases TLC enumerates for 9 other generators; each case in 4..6 rewritings: widened gaps and blanks at both ends, trailing "
                "comments from a 12-text pool (digits, operators, keywords, month and unit names), UPPER and Title case of currency codes, month names, zone names and connectives; "
                "expectation = the one TLC computed for the unmodified line; plus blank-only and comment-only lines. Every rewritten case is non-trivial." % per)
    rep.assumptions = ["blanks are U+0020, only existing gaps are widened (never inside a literal; the am / pm marker belongs to its time)", "unit names, duration words and the day "
                       "keywords are not in the statement's list of case-insensitive classes and keep their case", "TLC 1.8.0"]
    classes = keyword_classes()
    rng = random.Random(rep.seed * 2791 + 16)
    items = []
    pools = []
    g = tlc("Gen_Arith", "Gen_Arith", workers=8, timeout=1200)
    if not g.ok:
        raise ToolError("Gen_Arith failed")
    rep.add_tlc("Gen_Arith", g)
    cfg0 = render.cfg_with()
    ar = []
    for gi, c in enumerate(sorted(g.cases, key=forms.canon)):
        if c["exp_min"]["k"] == "num":
            ar.append({"line": {"form": "arith", "toks": c["min"]}, "text": render.render_arith(c["min"], ",", ".", "single", salt=str(gi)), "cfg": cfg0, "lang": "en",
                       "expected": c["exp_min"], "feat": {"form": "arith"}})
    pools.append(ar)
    for m in (c05, c06, c09, c10, c11, c12, c13, c14):
        pools.append(forms.collect(m, rep, home=m.__name__.split(".")[-1].upper()))
    for pool in pools:
        pool = [it for it in pool if it["expected"]["k"] not in ("unspec",)]
        pick = pool if len(pool) <= per else rng.sample(pool, per)
        for i, it in enumerate(pick):
            for rw, detail, text in variants(it, rng, classes, i % 40 == 0):
                v = dict(it)
                v["text"] = text
                v["variant"] = rw
                v["feat"] = dict(it.get("feat", {}), form=it["line"]["form"], rewrite=rw, detail=detail if rw != "blanks" else "")
                v["class_fn"] = cls
                v["nontrivial"] = True
                items.append(v)
    for t in ("", " ", "    ", "# zorp", "   # 5 + 3", "#", "# december 5", "#10 usd to eur", "  #  "):
        items.append({"line": {"form": "blank"}, "text": t, "cfg": cfg0, "lang": "en", "expected": {"k": "empty"}, "variant": "empty",
                      "feat": {"form": "blank", "rewrite": "empty", "detail": t.strip()[:12]}, "class_fn": cls, "nontrivial": True})
    forms.replay(rep, items, "c16.gen")
    variable_case(rep, rng, 400 if quick else 20000)
    text_around(rep, rng, [it for pool in pools for it in pool], 400 if quick else 6000)
    # impl -> spec: the same rewritings with fresh random choices, validated by TLC
    titems = []
    allp = [it for pool in pools for it in pool if it["expected"]["k"] != "unspec"]
    # the trace direction compares exact rationals: only cases whose value projects unambiguously (small denominators)
    allp = [it for it in allp if not ("q" in it["expected"] and it["expected"]["q"][1] > 10 ** 5)]
    for it in rng.sample(allp, min(len(allp), 1500 if quick else 20000)):
        vs = variants(it, rng, classes, False)
        rw, detail, text = vs[rng.randrange(len(vs))]
        v = {k: x for k, x in it.items() if k != "expected"}
        v["text"] = text
        v["variant"] = rw
        v["feat"] = dict(it.get("feat", {}), form=it["line"]["form"], rewrite=rw, detail=detail if rw != "blanks" else "")
        v["class_fn"] = cls
        titems.append(v)
    forms.trace(rep, titems, "c16.rand")


# words that mean nothing to the calculator, most of them in characters of several bytes
FILLER = ["日本語の予定", "überprüfung größe", "şükür çağrı ölçüm", "ΑΒΓΔΕΖΗΘ λόγος", "примечание к строке", "🙂🙂🙂🙂 🎉🎉", "naïve café déjà", "plain words here", "日本語の予定 日本語の予定 日本語"]


def text_around(rep, rng, pool, n):
    """C16 speaks about every line, also one with free text around the phrase: `<words> 12 march 2021` evaluates to whatever it
    evaluates to, and widening its gaps or appending a comment must not change that.  No expectation from the model is needed: the
    line with the rewriting is compared with the same line without it (both observed); lines that are errors are left out."""
    import proj
    from vlib import run_harness_stable_day
    pick = rng.sample(pool, min(n, len(pool)))
    cases, metas = [], []
    for i, it in enumerate(pick):
        f = FILLER[i % len(FILLER)]
        base = [f + " " + it["text"], it["text"] + " " + f, f + " " + it["text"] + " " + f][i % 3]
        if "#" in base:
            continue
        vs = [base, widen(base, rng)] + [base + rng.choice([" ", "  ", ""]) + "# " + c for c in (COMMENTS[i % len(COMMENTS)], f, "x")]
        cases.append({"id": "ta%d" % i, "cfg": it["cfg"], "steps": [{"op": "execute", "lang": it.get("lang", "en"), "text": v} for v in vs]})
        metas.append((it, vs))
    obs = run_harness_stable_day(cases, "c16.around", jobs=8)
    keys = ("k", "f", "cur", "u", "out", "d", "s", "day", "sod", "off", "zone")
    for (it, vs), case, o in zip(metas, cases, obs):
        steps = o.get("steps") or []
        sl = []
        for k in range(len(vs)):
            ss = proj.slots_of_step(steps[k]) if k < len(steps) else None
            sl.append(ss[1][0] if ss and ss[0] is True and len(ss[1]) == 1 else None)
        b = sl[0]
        if b is None or b.get("k") in ("err", "empty"):
            continue          # the line has no value: nothing to preserve
        rep.case(["around", vs[0]], True)
        rep.replayed += 1
        for k in range(1, len(vs)):
            s_ = sl[k]
            if s_ is None or any(s_.get(x) != b.get(x) for x in keys):
                rep.violation({"check": "replay", "form": "text_around", "text": vs[k], "base_text": vs[0], "cfg": it["cfg"], "expected": b, "observed": s_ if s_ is not None else (steps[k] if k < len(steps) else o),
                               "feat": {"form": it["line"]["form"], "rewrite": "blanks" if k == 1 else "comment", "detail": "text around", "failure": "differs_from_uncommented"},
                               "class": "differs|text_around|%s|%s" % (it["line"]["form"], "blanks" if k == 1 else "comment")})
                break
    if metas:
        rep.sample({"text_around": metas[0][1]})


def variable_case(rep, rng, n):
    """straight-line programs (the cases TLC enumerates for C03) in which every occurrence of a variable name gets its own letter case"""
    import compare
    import proj
    from vlib import run_harness_stable_day
    g = tlc("Gen_Prog", "Gen_Prog", workers=8, timeout=1800, heap="8g")
    if not g.ok:
        raise ToolError("Gen_Prog failed")
    rep.add_tlc("Gen_Prog", g)
    progs = [c for c in sorted(g.cases, key=lambda c: c["prog"]) if len(c["lines"]) >= 3]
    progs = progs if len(progs) <= n else rng.sample(progs, n)
    cfg = render.cfg_with()
    cases = []
    for pi, c in enumerate(progs):
        texts = [render.render_line(l, cfg, rng.choice(["lower", "upper", "title"]), salt="%d.%d" % (pi, i)) for i, l in enumerate(c["lines"])]
        cases.append({"id": "vc%d" % pi, "cfg": cfg, "steps": [{"op": "execute", "lang": "en", "text": "\n".join(texts)}], "_texts": texts})
    obs = run_harness_stable_day([{k: v for k, v in x.items() if not k.startswith("_")} for x in cases], "c16.vars", jobs=8)
    for c, case, o in zip(progs, cases, obs):
        st = (o.get("steps") or [o])[0]
        ss = proj.slots_of_step(st)
        slots = ss[1] if ss and ss[0] is True and len(ss[1]) == len(c["expected"]) else [None] * len(c["expected"])
        rep.case(["varcase", case["_texts"]], True)
        rep.replayed += 1
        for i, (exp, slot) in enumerate(zip(c["expected"], slots)):
            if not compare.match_slot(exp, slot):
                rep.violation({"check": "replay", "form": "program", "text": case["_texts"], "cfg": cfg, "expected": c["expected"], "observed": slots if slot is not None else st,
                               "feat": {"form": "program", "rewrite": "variable_case", "failure": compare.failure_kind(slot, st)},
                               "class": "%s|program|variable_case|line%d" % (compare.failure_kind(slot, st), i)})
                break
            if exp["k"] == "fails" and slot["k"] != "err":
                break
