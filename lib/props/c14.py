"""C14 Unix timestamps convert to and from date-times as mutual inverses (DESIGN 7, C14).

 S  MC_Unix: to date-time and back is the identity for all offsets; the printed local date-time re-read gives the instant
 G  Gen_Unix: boundary timestamps (year 1, epoch, 2^31, year 9999) and a grid x default / explicit zones, to date-time and
    round trip in one line; dates and times to timestamps; replayed with every keyword form
 T  random timestamps of years 1..9999 / dates; trace validated by TLC (Trace.tla)
"""
import json
import os
import random
import time

import forms
import render
from props import c09, c11
from vlib import OUT, ToolError, tlc, tlc_must_pass

LEVEL = "model_checking"
NOZONE = {"name": "", "off": 0}


def consts(today):
    zs = {z["name"]: z for z in render.usable_zones()}
    zones = [zs[n] for n in ("EST", "CET", "IST", "NPT") if n in zs][:3] + [{"name": "GMT+5:30", "off": 330}, {"name": "GMT-11:30", "off": -690}]
    defaults = [{"name": "UTC", "off": 0}] + ([zs["CET"]] if "CET" in zs else [{"name": "GMT+1", "off": 60}]) + [{"name": "GMT-3:30", "off": -210}]
    os.makedirs(os.path.join(OUT, "run"), exist_ok=True)
    p = os.path.join(OUT, "run", "c14.json")
    with open(p, "w") as f:
        json.dump({"today": today, "zones": zones, "defaults": defaults}, f)
    return p, zones, defaults


def ts_text(ts):
    return str(ts["d"] * 86400 + ts["s"])


def renderings(line, salt):
    f = line["form"]
    out = []
    if f in ("unix_from", "unix_round"):
        n = ts_text(line["ts"])
        tail = "" if f == "unix_from" else " " + ["as unix", "to unixtime", "as unixtimestamp", "unix"][salt % 4]
        if line["z"]["name"]:
            z = line["z"]["name"]
            for kw in ("to", "as", "into", ""):
                out.append(("z." + (kw or "none"), "%s %s%s%s" % (n, (kw + " ") if kw else "", z if salt % 2 else z.lower() if not z.startswith("GMT") else z, tail)))
        else:
            for kw in ("to", "as", "into", ""):
                out.append(("date." + (kw or "none"), "%s %sdate%s" % (n, (kw + " ") if kw else "", tail)))
        return out
    if f == "unix_to_date":
        for var, t in render.date_texts(line["a"], "en", False, salt)[:3]:
            for i, tail in enumerate(("as unix", "to unixtime", "into unixtimestamp", "unix", "unixtime")):
                if (salt + i) % 2 == 0 or i == 0:
                    out.append((var + "." + tail.replace(" ", "_"), "%s %s" % (t, tail)))
        return out
    if f in ("dt_at", "dt_unix", "dt_shift", "dt_conv"):
        dts = render.date_texts(line["a"], "en", False, salt)[:2]
        for i, (dv, dt) in enumerate(dts):
            sps = render.time_spellings(line["w"])
            sp, tt = sps[(salt + i) % len(sps)]
            base = "%s at %s" % (dt, tt)
            if f == "dt_at":
                out.append(("%s.%s" % (dv, sp), base))
            elif f == "dt_unix":
                out.append(("%s.%s" % (dv, sp), "%s %s" % (base, ["as unix", "to unixtime", "unix"][(salt + i) % 3])))
            elif f == "dt_shift":
                out.append(("%s.%s" % (dv, sp), "%s %s %s" % (base, line["op"], render.dur_parts_text(line["parts"], "en", salt + i))))
            else:
                out.append(("%s.%s" % (dv, sp), "%s %s %s" % (base, ["to", "into", "as"][(salt + i) % 3], line["z2"]["name"])))
        return out
    if f == "unix_to_time":
        for sp, t in render.time_spellings(line["w"]):
            out.append((sp, "%s %s" % (t, ["as unix", "to unix", "unixtime"][salt % 3])))
        return out
    return out


def feat_of(line):
    f = {"form": line["form"]}
    if "ts" in line:
        x = line["ts"]["d"] * 86400 + line["ts"]["s"]
        f["range"] = "i32" if -2 ** 31 <= x < 2 ** 31 else "wide"
        f["zone"] = "explicit" if line["z"]["name"] else "default"
    return f


def cls(kind, feat):
    return "%s|%s|%s|%s|%s" % (kind, feat["form"], feat.get("range", ""), feat.get("zone", ""), feat.get("deftz", ""))


def run(rep):
    quick = rep.tier == "quick"
    render.check_pool_words()
    today = int(time.time()) // 86400
    cpath, zones, defaults = consts(today)
    rep.rule = ("TLC enumerates timestamps (13 boundary values incl. year 1, -1, 0, 2^31-1, 2^31, year 9999 and a grid) x {default zone, 5 explicit zones} x 3 default zones (UTC, one east, one west of Greenwich with minutes), "
                "as 'N to date' / 'N to Z' and as the one-line round trip 'N to date as unix'; dates (boundary set, year-less, today / tomorrow) and times 'as unix'. "
                "A case = one line in one keyword form; non-trivial = outside the i32 range, an explicit zone or a non-UTC default zone. Random part: uniform timestamps "
                "of years 1..9999 and random dates, validated by TLC.")
    rep.assumptions = ["renderer lib/render.py", "projection: number -> (days, seconds) split, printed digits -> same split; date-time text -> civil fields",
                       "'<time> as unix' (no date) is only specified under a UTC default zone; '<date> at <time>' forms under every default zone", "a run that straddles 00:00 UTC re-executes the affected cases", "TLC 1.8.0"]
    r = tlc_must_pass("MC_Unix", "MC_Unix", workers=8, timeout=900)
    rep.add_tlc("MC_Unix", r)
    g = tlc("Gen_Unix", "Gen_Unix" if quick else "Gen_Unix_thorough", workers=8, timeout=1800, env={"CONSTS": cpath}, heap="8g")
    if not g.ok:
        raise ToolError("Gen_Unix failed: %s" % (g.violated or g.error))
    rep.add_tlc("Gen_Unix", g)
    gen = sorted(g.cases, key=forms.canon)
    kinds = {c["expected"]["k"] for c in gen}
    if not {"datetime", "ts", "unspec"} <= kinds:
        raise ToolError("vacuous generator: kinds %s" % kinds)
    items = []
    for gi, c in enumerate(gen):
        line = c["line"]
        if c["expected"]["k"] == "unspec":
            continue
        cfg = c11.cfg_for(c["def"])
        for var, text in renderings(line, gi):
            feat = feat_of(line)
            feat["deftz"] = c["def"]["name"]
            items.append({"line": line, "text": text, "cfg": cfg, "lang": "en", "expected": c["expected"], "variant": var, "feat": feat, "class_fn": cls,
                          "nontrivial": feat.get("range") == "wide" or feat.get("zone") == "explicit" or c["def"]["off"] != 0})
    forms.replay(rep, items, "c14.gen")
    random_trace(rep, zones, defaults, 3000 if quick else 200000)


def random_trace(rep, zones, defaults, n):
    rng = random.Random(rep.seed * 1409 + 14)
    allz = render.usable_zones()
    items = []
    lo, hi = -719162, 2932896
    for i in range(n):
        defz = rng.choice(defaults + [rng.choice(allz)])
        x = rng.random()
        if x < 0.7:
            r = rng.random()
            if r < 0.5:
                d = rng.randint(lo + 1, hi - 1)
            elif r < 0.8:
                d = rng.randint(-30000, 60000)
            else:
                d = rng.choice([-1, 0, 24855, 24856])
            ts = {"d": d, "s": rng.randint(0, 86399)}
            z = dict(NOZONE) if rng.random() < 0.4 else rng.choice(allz + zones)
            line = {"form": "unix_from" if x < 0.35 else "unix_round", "ts": ts, "z": z}
        elif x < 0.9:
            line = {"form": "unix_to_date", "a": c09.rand_date(rng)}
        else:
            line = {"form": "unix_to_time", "w": rng.randrange(0, 86400)}
            defz = defaults[0]
        rs = renderings(line, i)
        var, text = rs[rng.randrange(len(rs))]
        feat = feat_of(line)
        feat["deftz"] = defz["name"]
        items.append({"line": line, "text": text, "cfg": c11.cfg_for(defz), "lang": "en", "variant": "random", "feat": feat, "class_fn": cls})
    forms.trace(rep, items, "c14.rand")
