"""C08 Separators affect only reading and printing of numbers, never the computed value (DESIGN 7, C08).

 S  MC_SmartCalc: SepIndependent - on every reachable state of the system model the meaning of every line is the same under all
    separator configurations (the separators are state of the calculator: SetDecimalSep / SetThousandSep are actions of the model)
 G  the cases TLC enumerates for C02, C05, C06, C12 and C13 (a stratified sample per form), each rewritten into and evaluated under the
    four separator configurations with the one expectation TLC computed; plus plain and grouped number literals
 T  random histories on one long-lived calculator: the separators are changed through the setters between evaluations, every line is
    written in the convention in force, values are carried through variables; validated by TLC (Trace.tla, set_dec / set_tho events)
"""
import random
from fractions import Fraction

import forms
import proj
import render
from props import c02, c05, c06, c12, c13
from tracev import reset_event, validate_trace
from vlib import ToolError, fraction_to_q, run_harness_stable_day, short_hash, tlc, tlc_must_pass

LEVEL = "model_checking"
CFGS = [render.cfg_with(dec=d, tho=t) for d, t in render.SEP_CONFIGS]


def sample(cases, n, seed, keyf=None):
    cases = sorted(cases, key=forms.canon)
    if len(cases) <= n:
        return cases
    return random.Random(seed).sample(cases, n)


def cls(kind, feat):
    return "%s|%s|dec=%s|tho=%s|%s" % (kind, feat["form"], feat["dec"], feat["tho"], feat.get("variant", "")[:10])


def run(rep):
    quick = rep.tier == "quick"
    n = 250 if quick else 100000
    render.check_pool_words()
    rep.rule = ("the cases TLC enumerates for the arithmetic, percentage, money, unit and radix generators (quick: a seeded sample of 250 per generator, thorough: all), each "
                "rendered and evaluated under the 4 separator configurations (',' '.'), ('.' ','), ('.' ''), (',' '') against the one expectation; number literals plain and grouped; "
                "a case = one line under one configuration; non-trivial = the line contains a fractional or grouped literal. Random part: histories with setter calls "
                "between evaluations and values carried through variables, validated by TLC.")
    rep.assumptions = ["renderer lib/render.py writes every literal in the convention of the configuration in force", "projection, 1e-9 tolerance on replayed cases", "TLC 1.8.0"]
    r = tlc_must_pass("MC_SmartCalc", "MC_SmartCalc", workers=8, timeout=1500)
    rep.add_tlc("MC_SmartCalc(SepIndependent)", r)
    items = []

    def add(line, expected, cfg, var, text, pre=None, radix=False):
        frac = any(ch in text for ch in (cfg["dec"],)) or (cfg["tho"] and cfg["tho"] in text)
        it = {"line": line, "text": text, "cfg": cfg, "lang": "en", "expected": expected, "variant": var, "feat": {"form": line["form"]}, "class_fn": cls,
              "nontrivial": bool(frac)}
        if pre:
            it["pre"] = pre
        if radix:
            it["radix"] = True
        items.append(it)
    # arithmetic
    g = tlc("Gen_Arith", "Gen_Arith", workers=8, timeout=1200)
    if not g.ok:
        raise ToolError("Gen_Arith failed")
    rep.add_tlc("Gen_Arith", g)
    for gi, c in enumerate(sample([c for c in g.cases if c["exp_min"]["k"] == "num"], n, rep.seed)):
        for cfg in CFGS:
            add({"form": "arith", "toks": c["min"]}, c["exp_min"], cfg, "min", render.render_arith(c["min"], cfg["dec"], cfg["tho"], render.SPACINGS[gi % 5], salt=str(gi)))
    # percentages
    rated = render.rated_currencies()
    g = tlc("Gen_Percent", "Gen_Percent", workers=8, timeout=1200, env={"CONSTS": c05.consts([c for c in ("usd", "try", "eur") if c in rated])})
    rep.add_tlc("Gen_Percent", g)
    for gi, c in enumerate(sample(g.cases, n, rep.seed + 1)):
        for cfg in CFGS:
            rs = c05.renderings(c["line"], cfg, gi, False)
            add(c["line"], c["expected"], cfg, rs[gi % len(rs)][0], rs[gi % len(rs)][1])
    # percentages of a thousand and more are always taken, in every spelling with group separators (one, two, with a fraction)
    for gi, c in enumerate(sorted(g.cases, key=forms.canon)):
        if "p" in c["line"] and abs(render.q_fraction(c["line"]["p"])) >= 1000:
            for cfg in CFGS:
                if not cfg["tho"]:
                    continue
                for var, text in c05.renderings(c["line"], cfg, gi, True):
                    if "grouped" in var:
                        add(c["line"], c["expected"], cfg, var, text)
    # money (lines under configured and under exact rates)
    g = tlc("Gen_Money", "Gen_Money", workers=8, timeout=2400, env={"CONSTS": c06.consts()}, heap="8g")
    rep.add_tlc("Gen_Money", g)
    zone_names = {k.upper() for k in render.config_json().get("timezones", {})}
    for gi, c in enumerate(sample([c for c in g.cases if c["kind"] == "line"], n, rep.seed + 2)):
        if len(c["pre"]) == 1 and c["line"].get("target", "").upper() in zone_names:
            continue         # Appendix B: a conversion target that is also a zone name (tmt, wst ...) is read as the zone (as in C06)
        pre = [{"op": "update_currency", "cur": p["cur"], "rate": c06.rate_float(p["q"])} for p in c["pre"]]
        for cfg in CFGS:
            rs = c06.renderings(c["line"], cfg, gi, False)
            add(c["line"], c["expected"], cfg, rs[gi % len(rs)][0], rs[gi % len(rs)][1], pre=pre)
    # units
    g = tlc("Gen_Units", "Gen_Units", workers=8, timeout=1200)
    rep.add_tlc("Gen_Units", g)
    for gi, c in enumerate(sample(g.cases, n, rep.seed + 3)):
        for cfg in CFGS:
            rs = c12.renderings(c["line"], cfg, gi, False)
            add(c["line"], c["expected"], cfg, rs[gi % len(rs)][0], rs[gi % len(rs)][1])
    # radix conversions of fractional decimals
    g = tlc("Gen_Radix", "Gen_Radix", workers=8, timeout=1200)
    rep.add_tlc("Gen_Radix", g)
    for gi, c in enumerate(sample([c for c in g.cases if c["line"]["form"] == "radix_conv" and c["line"]["q"]], n // 2, rep.seed + 4)):
        for cfg in CFGS:
            rs = c13.renderings(c["line"], gi, False, dec=cfg["dec"])
            exp = dict(c["expected"])
            if exp.get("base") == 10:
                exp["base"] = 0        # how a decimal prints under other separators is C07's subject
            add(c["line"], exp, cfg, rs[gi % len(rs)][0], rs[gi % len(rs)][1], radix=True)
    # number literals, plain and grouped
    for fr in (Fraction(12345, 10), Fraction(1000), Fraction(123456725, 100), Fraction(1, 2), Fraction(1275, 100), Fraction(999999), Fraction(1000000)):
        for cfg in CFGS:
            for group in (False, True):
                for neg in (False, True):
                    v = -fr if neg else fr
                    add({"form": "lit", "v": {"k": "num", "q": fraction_to_q(v)}}, {"k": "num", "q": fraction_to_q(v)}, cfg, "grouped" if group else "plain",
                        render.number_text(v, cfg["dec"], cfg["tho"], group=group))
    forms.replay(rep, items, "c08.gen")
    random_histories(rep, 60 if quick else 1200)
    # unit conversions include those of user-defined families: their step codes are written in the code notation and must be read
    # the same under every separator configuration, whenever the family was registered (the part is shared with C18)
    from props import c18
    c18.families_under_separators(rep)


def random_histories(rep, nhist):
    rng = random.Random(rep.seed * 7793 + 8)
    cases, metas = [], []
    units = ["km", "m", "cm", "kg", "g", "in", "ft"]
    for hi in range(nhist):
        cfg = dict(render.cfg_with())
        two = hi % 3 == 2        # every third history: two calculators alive in the process, each with its own separators
        curs = {1: dict(dec=cfg["dec"], tho=cfg["tho"]), 2: dict(dec=cfg["dec"], tho=cfg["tho"])}
        on = 1
        steps, evs = [], []
        for k in range(40):
            if two and rng.random() < 0.35:
                evs.append({"ev": "switch", "from": on, "to": 3 - on})
                on = 3 - on
            cur = curs[on]
            nsteps = len(steps)
            if rng.random() < 0.3:
                d, t = rng.choice(render.SEP_CONFIGS)
                pair = [("set_dec", d), ("set_tho", t)]
                if rng.random() < 0.5:
                    pair.reverse()         # the two setters are independent: either order leads to the same configuration
                for op, v in pair:
                    steps.append({"op": op, "v": v})
                    evs.append({"ev": op, "v": v})
                curs[on] = dict(dec=d, tho=t)
                if on == 2:
                    for s_ in steps[nsteps:]:
                        s_["calc"] = 2
                continue
            c = render.cfg_with(dec=cur["dec"], tho=cur["tho"])
            if rng.random() < 0.12:
                # a date whose day is followed by a comma ('Month d, y'): the comma is not part of a number in any convention
                a = {"y": rng.randint(1900, 2100), "m": rng.randint(1, 12), "d": rng.randint(1, 28)}
                sp = [t for v, t in render.date_texts(a, "en", True, k) if v.startswith("mon_d_c_y")]
                line = {"form": "date_lit", "a": a}
                steps.append({"op": "execute", "lang": "en", "text": sp[k % len(sp)]})
                evs.append({"ev": "execute", "lang": "en", "lines": [line], "_texts": [sp[k % len(sp)]], "_sep": dict(cur)})
                if on == 2:
                    steps[-1]["calc"] = 2
                continue
            amt = fraction_to_q(Fraction(rng.randint(1, 99999), rng.choice([1, 2, 4, 8, 10, 100])))
            kind = rng.choice(["num", "money", "unit", "pct"])
            if kind == "num":
                v = {"k": "num", "q": amt}
            elif kind == "money":
                v = {"k": "money", "q": amt, "cur": rng.choice(["usd", "eur", "try"])}
            elif kind == "unit":
                v = {"k": "unit", "q": amt, "u": rng.choice(units)}
            else:
                v = {"k": "pct", "q": amt}
            name = rng.choice([["zorp"], ["blip", "quux"]])
            lines = [{"form": "assign", "name": name, "rhs": {"form": "lit", "v": v}}, {"form": "use", "toks": [{"k": "words", "ws": name}]}]
            if kind == "num":
                lines.append({"form": "use", "toks": [{"k": "words", "ws": name}, {"k": "op", "c": rng.choice("+-*")}, {"k": "num", "m": [rng.randint(1, 9), rng.choice([1, 2, 4])], "sfx": ""}]})
            texts = [render.render_line(l, c, "lower", salt="%d.%d.%d" % (hi, k, i)) for i, l in enumerate(lines)]
            steps.append({"op": "execute", "lang": "en", "text": "\n".join(texts)})
            evs.append({"ev": "execute", "lang": "en", "lines": lines, "_texts": texts, "_sep": dict(cur)})
            if on == 2:
                steps[-1]["calc"] = 2
        case = {"id": "sh%d" % hi, "cfg": cfg, "steps": steps, "fresh": True}
        if two:
            case["two"] = True
        cases.append(case)
        metas.append(evs)
    obs = run_harness_stable_day(cases, "c08.rand", jobs=8)
    events, index = [], []
    for case, evs, o in zip(cases, metas, obs):
        events.append(reset_event(case["cfg"], o.get("day0", 0), extra={"two": True} if case.get("two") else None))
        index.append(None)
        steps = o.get("steps") or []
        k = -1
        for e in evs:
            ev = {kk: vv for kk, vv in e.items() if not kk.startswith("_")}
            if e["ev"] == "switch":          # an event of the trace, not a call
                events.append(ev)
                index.append(None)
                continue
            k += 1
            if e["ev"] == "execute":
                st = steps[k] if k < len(steps) else o
                ss = proj.slots_of_step(st)
                if ss is None:
                    ev["status"], slots = True, [{"k": st.get("outcome", "panic")}]
                else:
                    ev["status"], slots = ss
                ev["obs"] = [{kk: vv for kk, vv in proj.trace_slot(s).items() if kk != "pr"} for s in slots]
                index.append((case, k, st, e))
                rep.case([case["id"], k], True)
            else:
                index.append(None)
            events.append(ev)
    bad = validate_trace(rep, events, "c08")
    for b in bad:
        case, k, st, e = index[b["l"] - 1]
        rep.violation({"check": "trace", "form": "history", "text": e["_texts"], "sep": e["_sep"], "expected": b["expected"], "observed": st, "cfg": case["cfg"],
                       "feat": {"form": "history", "failure": "wrong", "dec": e["_sep"]["dec"], "tho": e["_sep"]["tho"]},
                       "class": "setter-history|dec=%s|tho=%s" % (e["_sep"]["dec"], e["_sep"]["tho"])})
    if cases:
        rep.sample({"setter_history": cases[0]["steps"][:8]})
