"""C01 Evaluation is total: no panic, no hang, one result slot per input line (DESIGN 7, C01).

 S  MC_SmartCalc: SlotPerLine, LoopIsRunLines and (under fairness) Terminates on the system model: the evaluation loop appends exactly
    one slot per line, an error slot never disables the rest of the loop (TLC, exhaustive, small constants)
 G  Gen_Shape: TLC enumerates every sequence of 1..2 (thorough 3) lexeme classes out of the alphabet of DESIGN Appendix F (numbers on every
    boundary, radix literals, suffixes, percent, money, dates, times, atoms, fields, every configured word, every operator character,
    unicode shapes); the driver picks concrete strings, joins lines into texts with LF / CRLF and runs them under 4 language tags (one
    unknown, one empty), 6 separator configurations and 3 default zones
 T  a seeded fuzz driver: random UTF-8, dictionary words of config.json, fragments shaped like its regular expressions, mutations of the
    lines of the repository's tests; every execution is one trace event validated by TLC (Trace.tla): returned, status true, one slot
    per line, admissible slot kinds, and - where the text binds no variable - each line's slot equals the slot of the line alone.
    TLA+ cannot see Rust panics: the panic / termination half is model-driven exploration, the slot structure is model checked.
"""
import os
import random
import re

import proj
import render
from tracev import reset_event, validate_trace
from vlib import REPO, ToolError, run_harness_stable_day, tlc, tlc_must_pass

LEVEL = "model_checking"


def alphabet():
    c = render.config_json()
    words = sorted(render.all_config_words())
    zones = sorted(c["timezones"])[:40]
    A = [
        ["0", "7", "24", "25", "28", "29", "30", "31", "59", "60", "365", "366", "2147483647", "2147483648", "100000000000", "100000000000000000000"],
        ["+3", "-5", "1,5", "1.5", "1.000", "1,000.5", "1.2.3", "1,,2", "1e5", "007", ",5", "5,"],
        ["0x10", "0xFF", "0xAF", "0x" + "F" * 21, "0b101", "0b" + "1" * 70, "0o17", "0o" + "7" * 30, "0X1f", "0B1", "0O7", "0x", "0b2", "0o8"],
        ["1k", "2M", "3G", "8Y", "1kk", "5Z", "1,5M", "2 k"],
        ["5%", "%5", "-5%", "1.2.3%", "%", "5 %", "%%5", "1,5%", "%1.000,5"],
        ["$5", "5$", "₺10", "€-3", "10 usd", "1k usd", "$1k", "10 zzz", "10usd", "usd 10", "10 лв", "5 kr"],
        ["12/2/2020", "31/1/2021", "29/2/2020", "30/2/2020", "1/13/2020", "10 june", "june 10", "2019", "31 december", "1 december", "0/0/0", "1/1/1", "31/12/9999", "1/1/10000",
         "june 31 2020", "february 29, 2021"],
        ["11:30", "0:00", "23:59:59", "12:30 am", "7 pm", "24:00", "11:60", "1:2:3", "12 pm", "0 am", "13 pm", "99:99"],
        ["[NUMBER:1]", "[NUMBER:x]", "[TIME:10]", "[TIME:999999]", "[TIME:-1]", "[MONEY:5]", "[MONEY:5;usd]", "[MONEY:x;usd]", "[PERCENT:]", "[PERCENT:x]", "[OPERATOR:+]",
         "[OPERATOR:]", "[FOO:1]", "[MONTH:13]", "[MONTH:x]", "[DATE:1]", "[", "]"],
        ["{NUMBER:a}", "{GROUP:a:b}", "{GROUP:a}", "{TEXT:a}", "{FOO:a}", "{TEXT:a:b}", "{", "}", "{NUMBER}", "{:}"],
        ["to", "in", "as", "into", "of", "on", "off", "at", "is", "what", "unix", "date", "hex", "octal", "binary", "decimal", "am", "pm", "now", "today", "tomorrow", "yesterday"],
        ["day", "days", "week", "month", "months", "year", "second", "minute", "hours", "gün", "hafta", "ay", "yıl", "saniye", "dakika", "saat", "bugün", "yarın", "dün", "arası"],
        words[::7], words[3::7], zones, ["GMT+5:30", "GMT-12", "GMT+19:59", "GMT", "GMT+", "gmt+1", "GMT+1:60", "GMT+24", "GMT-25:30", "GMT29", "GMT+20", "GMT-23:59", "GMT+99"],
        ["km", "m", "in", "ft", "kg", "oz", "mb", "byte", "bit", "yb", "mile", "st", "kilobytes", "meter"],
        ["january", "feb", "may", "mar", "ocak", "şubat", "subat", "aralık", "December", "MAYIS"],
        ["zorp", "foo bar", "x", "a", "zorp blip quux"],
        ["+", "-", "*", "/", "(", ")", "=", "%", "#", "^", "!", "?", "&", ";", "_", "'", "\"", ",", ".", ":", "<", ">", "[", "]", "{", "}", "|", "~", "@", "\\", "$", "−"],
        ["((", "))", "()", "+-", "*/", "--", "==", "= =", "(((((((((("],
        ["ğü", "İ", "ß", "日本", "😀", "é", "‏", "ﬁ", "ǅ", "\t", "\u0000", "٣", "Ⅳ", "½", " ", "﻿"],
        ["times", "multiply", "divide", "add", "sum", "minus", "kere", "çarpı", "ekle", "eksi", "euro"],
        ["10000000000000000000 years", "99999999999 months", "1000000000 weeks", "9223372036854775807 days", "99999999999999 hours", "9223372036854775807 seconds"],
        # whole phrases on the boundaries the other properties' domains stop at (a day or more added to a time, month ends, zero divisors ...)
        ["11:30 + 25 hours", "10:00 + 1 day", "22:15 - 3 days 2 hours", "0:00 - 1 second", "23:59:59 + 86400 seconds", "31/1/2021 + 1 month", "29/2/2020 - 1 year", "1/1/1 - 1 day",
         "31/12/9999 + 1 day", "1/1/2020 + 9999999 years", "10 usd / 0 usd", "5 km / 0 m", "0% of 0", "8 is 0% of what", "0 is what % of 0", "1 yb to bit", "1 bit to yb",
         "11:30 to 11:30", "today to today", "1k km to mm", "0x7FFFFFFFFFFFFFFF + 1", "9007199254740993 to hex", "-5 to hex", "1,5 to binary",
         # the ends of the calendar the date library can represent (years -262143 .. 262142)
         "12/12/262142 + 19 days", "12/12/262142 + 3 weeks", "31/12/262142 + 1 day", "12/12/2020 + 260122 years 25 days", "1/1/2020 - 264163 years", "1/1/262142 - 1 day",
         "12/12/262142 to 1/1/1", "31/12/262142 at 23:59 + 2 hours", "12/12/262143", "1/1/2020 - 264162 years 3 weeks"],
        ["99999999999999999 to date", "-99999999999999999 to date", "1 oct 2022 at 10:00", "1/1/2020 at 24", "1/1/2020 at -1", "1/1/2020 at 1000000000", "today at 12", "1664582400 to EST"],
    ]
    return A


SEPS = [(",", "."), (".", ","), (".", ""), (",", ""), ("", ""), (" ", ".")]
LANGS = ["en", "tr", "xx", ""]
ZONES = [("UTC", 0), ("CET", 60), ("GMT-11:30", -690)]


def cfgs():
    out = []
    for i, (d, t) in enumerate(SEPS):
        z = ZONES[i % len(ZONES)]
        out.append(render.cfg_with(dec=d, tho=t, tz=z[0], tz_off=z[1]))
    return out


def test_lines():
    """string literals of the repository's own tests that look like calculator lines"""
    out = set()
    for root, _, files in os.walk(os.path.join(REPO, "src")):
        for f in files:
            if f.endswith(".rs"):
                try:
                    src = open(os.path.join(root, f), encoding="utf-8").read()
                except Exception:
                    continue
                for m in re.finditer(r'execute\((?:"[a-z]*"\.to_string\(\),\s*)?(?:r#)?"((?:[^"\\]|\\.)*)"', src):
                    for l in m.group(1).encode().decode("unicode_escape", "ignore").split("\n"):
                        if 0 < len(l) <= 120:
                            out.add(l.strip())
    return sorted(out)


def site_of(st):
    p = st.get("panic") or {}
    loc = p.get("loc", "?").replace("/repo/", "").replace(REPO + "/", "")
    return loc, p.get("msg", "?")


def run_texts(rep, texts, tag, logger=False):
    """texts: list of (text, lang, cfg). Executes each text and each of its lines alone; builds and validates the trace."""
    cases = []
    for i in range(0, len(texts), 25):
        chunk = texts[i:i + 25]
        by = {}
        for j, (t, lang, cfg) in enumerate(chunk):
            by.setdefault(render.short_hash(cfg), []).append(i + j)
        for key, idxs in by.items():
            steps = []
            owners = []
            for k in idxs:
                t, lang, cfg = texts[k]
                steps.append({"op": "execute", "lang": lang, "text": t})
                owners.append((k, None))
                lines = re.split(r"\r\n|\n", t)
                if len(lines) > 1 and "=" not in t:
                    for li, l in enumerate(lines):
                        steps.append({"op": "execute", "lang": lang, "text": l})
                        owners.append((k, li))
            cases.append({"id": "%s.%d" % (tag, len(cases)), "cfg": texts[idxs[0]][2], "steps": steps, "_owners": owners})
    obs = run_harness_stable_day([{k: v for k, v in c.items() if not k.startswith("_")} for c in cases], tag, jobs=8, timeout_s=45, logger=logger)
    whole = {}
    alone = {}
    for case, o in zip(cases, obs):
        steps = o.get("steps")
        for si, (k, li) in enumerate(case["_owners"]):
            st = steps[si] if steps and si < len(steps) else {"outcome": o.get("outcome", "crash"), "panic": o.get("panic"), "why": o.get("why"),
                                                              "whole_batch": len(case["_owners"]) > 1}
            if li is None:
                whole[k] = st
            else:
                alone[(k, li)] = st
    # a panic ends its batch and a hang loses its whole batch: re-run those texts alone, so that the line that panics or hangs is the
    # one that is reported.  Once a run has seen 24 hangs the harness starts nothing more (every further hang costs a full timeout):
    # what was not started is left out of the trace and counted in the evidence - the hangs already seen are violations enough.
    redo = [k for k, st in whole.items() if (st.get("outcome") == "skipped" and st.get("why") != "too many hangs")
            or (st.get("outcome") in ("hang", "crash") and st.get("whole_batch"))]
    if redo:
        more = run_texts_raw([texts[k] for k in redo], tag + ".redo", logger)
        for k, st in zip(redo, more):
            whole[k] = st
    not_run = {k for k, st in whole.items() if st.get("outcome") == "skipped" and st.get("why") == "too many hangs"}
    if not_run:
        rep.extra["not_started_after_24_hangs"] = rep.extra.get("not_started_after_24_hangs", 0) + len(not_run)

    def slot_list(st):
        ss = proj.slots_of_step(st)
        if ss is None:
            return None, [{"k": st.get("outcome", "broken")}]
        return ss[0], ss[1]

    def same(a, b):
        keys = ("k", "f", "cur", "u", "out", "msg", "d", "s", "day", "sod", "off", "zone")
        return all(a.get(x) == b.get(x) for x in keys)
    events, index = [], []
    last_cfg = None
    for k, (t, lang, cfg) in enumerate(texts):
        if k in not_run:
            continue
        st = whole.get(k, {"outcome": "missing"})
        lines = re.split(r"\r\n|\n", t)
        status, slots = slot_list(st)
        key = render.short_hash(cfg)
        if key != last_cfg:
            events.append(reset_event(cfg, 0))
            index.append(None)
            last_cfg = key
        obs_slots = []
        forms_ = []
        for li in range(len(lines)):
            a = alone.get((k, li))
            if a is not None and a.get("outcome") == "returned" and li < len(slots):
                ss = proj.slots_of_step(a)
                ok = ss is not None and ss[0] is True and len(ss[1]) == 1 and same(slots[li], ss[1][0])
                forms_.append({"form": "opaque", "id": li})
                obs_slots.append({"k": slots[li].get("k", "broken"), "same_as_base": bool(ok)})
            else:
                forms_.append({"form": "shape", "id": li})
                if li < len(slots):
                    obs_slots.append({"k": slots[li].get("k", "broken")})
        # more or fewer slots than lines: hand over what was observed; Trace.tla rejects the length
        if len(slots) > len(lines):
            obs_slots += [{"k": s.get("k", "broken")} for s in slots[len(lines):]]
        events.append({"ev": "execute", "lang": lang, "lines": forms_, "status": bool(status) if status is not None else False, "obs": obs_slots})
        index.append((k, st))
        rep.case([t, lang, cfg["dec"], cfg["tho"], cfg["tz"]], len(t.strip()) > 0)
    bad = validate_trace(rep, events, tag)
    for b in bad:
        k, st = index[b["l"] - 1]
        t, lang, cfg = texts[k]
        oc = st.get("outcome")
        if oc in ("panic", "crash", "hang"):
            loc, msg = site_of(st)
            feat = {"form": "shape", "failure": oc, "site": loc, "message": msg, "lang": lang, "lang_known": lang in render.languages()}
            c = "%s|%s|%s" % (oc, loc, msg[:60])
        else:
            status, slots = slot_list(st)
            nl = len(re.split(r"\r\n|\n", t))
            what = "slot_count" if len(slots) != nl or not status else "line_depends_on_neighbours"
            feat = {"form": "shape", "failure": what, "lang": lang, "lang_known": lang in render.languages()}
            c = "%s|%s" % (what, lang)
        rep.violation({"check": "trace", "form": "shape", "text": t, "lang": lang, "cfg": cfg, "expected": b["expected"], "observed": st, "feat": feat, "class": c})
    return whole


def run_texts_raw(texts, tag, logger=False):
    cases = [{"id": "%s.%d" % (tag, i), "cfg": cfg, "steps": [{"op": "execute", "lang": lang, "text": t}]} for i, (t, lang, cfg) in enumerate(texts)]
    obs = run_harness_stable_day(cases, tag, jobs=8, timeout_s=45, logger=logger)
    return [(o.get("steps") or [{"outcome": o.get("outcome", "crash"), "panic": o.get("panic"), "why": o.get("why")}])[0] for o in obs]


def run(rep):
    quick = rep.tier == "quick"
    A = alphabet()
    rep.rule = ("TLC enumerates every sequence of 1..2 (thorough 3) lexeme classes out of %d; the driver instantiates each with concrete strings (all strings for single classes, seeded "
                "choices beyond), joins lines into texts of 1..4 lines with LF / CRLF and runs them under language tags en / tr / xx / '' and 6 separator / zone configurations; the "
                "fuzz part adds random UTF-8, dictionary words, regex-shaped fragments and mutated test lines. A case = one text under one language and configuration; non-trivial = "
                "the text is not blank." % len(A))
    rep.assumptions = ["TLA+ cannot observe Rust panics or non-termination: that half is exploration driven by the model's alphabet (evidence says so); the slot structure is validated by TLC",
                       "lines are at most 256 characters (a family of lines with 60..300 repeated operands is longer); a worker that dies or exceeds 45 s is an observation (crash / hang)", "custom rules are outside C01's configuration space", "TLC 1.8.0"]
    r = tlc_must_pass("MC_SmartCalc", "MC_SmartCalc", workers=8, timeout=1500)
    rep.add_tlc("MC_SmartCalc(safety)", r)
    r = tlc_must_pass("MC_SmartCalc", "MC_SmartCalc_live", workers=8, timeout=900)
    rep.add_tlc("MC_SmartCalc(liveness)", r)
    g = tlc("Gen_Shape", "Gen_Shape" if quick else "Gen_Shape_thorough", workers=8, timeout=1200)
    if not g.ok:
        raise ToolError("Gen_Shape failed: %s" % (g.violated or g.error))
    rep.add_tlc("Gen_Shape", g)
    if max(max(c["seq"]) for c in g.cases) != len(A):
        raise ToolError("Gen_Shape's NClass (%d) and the driver's alphabet (%d) differ" % (max(max(c["seq"]) for c in g.cases), len(A)))
    rng = random.Random(rep.seed * 911 + 1)
    lines = []
    seqs = sorted((c["seq"] for c in g.cases), key=repr)
    if len(seqs) > 30000:
        seqs = rng.sample(seqs, 30000)
    for seq in seqs:
        if len(seq) == 1:
            for s in A[seq[0] - 1]:
                lines.append(s)
        elif len(seq) == 2:
            # every pair of strings when there are few, a seeded sample of 30 pairs otherwise
            pairs = [(a, b) for a in A[seq[0] - 1] for b in A[seq[1] - 1]]
            for a, b in (pairs if len(pairs) <= 30 else rng.sample(pairs, 30)):
                lines.append(a + rng.choice(["", " ", " ", "  "]) + b)
        else:
            lines.append(rng.choice(["", " ", " ", "  "]).join(rng.choice(A[c - 1]) for c in seq))
    lines = [l for l in lines if len(l) <= 256]
    cs = cfgs()
    texts = []
    i = 0
    while i < len(lines):
        n = rng.choice([1, 1, 1, 2, 3, 4])
        nl = rng.choice(["\n", "\r\n", "mixed"])
        chunk = lines[i:i + n]
        if nl == "mixed":          # both separators in one text, empty lines, a separator at the end
            t = ""
            for j, l in enumerate(chunk):
                t += l + (rng.choice(["\n", "\r\n", "\r\n\n", "\n\r\n"]) if j < len(chunk) - 1 or rng.random() < 0.3 else "")
        else:
            t = nl.join(chunk)
        i += n
        texts.append((t, LANGS[len(texts) % len(LANGS)], cs[len(texts) % len(cs)]))
    rep.sample({"text": texts[len(texts) // 2][0], "lang": texts[len(texts) // 2][1]})
    run_texts(rep, texts, "c01.gen")
    # ---- fuzz -------------------------------------------------------------------------------------------------------------
    nf = 3000 if quick else 60000
    tl = test_lines()
    words = sorted(render.all_config_words())
    flat = [s for cl in A for s in cl]
    ftexts = []
    for i in range(nf):
        x = rng.random()
        if x < 0.2:
            n = rng.randint(1, 40)
            s = "".join(chr(rng.choice([rng.randint(32, 126), rng.randint(160, 0x2FF), rng.randint(0x370, 0x52F), rng.randint(0x2000, 0x2BFF), rng.randint(0x1F300, 0x1F64F)]))
                        for _ in range(n))
        elif x < 0.45:
            s = " ".join(rng.choice(words if rng.random() < 0.6 else flat) for _ in range(rng.randint(1, 7)))
        elif x < 0.6:
            s = rng.choice(["{h}:{m}:{s}", "{n}{sep}{n}%", "%{n}", "{cur}{n}{sfx}", "{n} {w}", "{n}/{n}/{n}", "0x{hex}", "{n} {w} {n} {w}", "{n} {op} {n} {w}", "[{w}:{n}]", "{{{w}:{w}}}"]) \
                .format(h=rng.randint(0, 30), m=rng.randint(0, 70), s=rng.randint(0, 70), n=rng.choice(["0", "1", str(rng.randint(-5, 400)), str(rng.randint(0, 10 ** rng.randint(1, 22)))]),
                        sep=rng.choice(",.") * rng.randint(0, 2), cur=rng.choice("$€₺£¥"), sfx=rng.choice(["", "k", "M", "Y", "kk"]), w=rng.choice(words), op=rng.choice("+-*/^%"),
                        hex="".join(rng.choice("0123456789abcdefABCDEFg") for _ in range(rng.randint(1, 20))))
        else:
            s = rng.choice(tl) if tl else "1 + 2"
            for _ in range(rng.randint(1, 3)):
                if not s:
                    break
                p = rng.randrange(len(s))
                op = rng.random()
                if op < 0.3:
                    s = s[:p] + s[p + 1:]
                elif op < 0.6:
                    s = s[:p] + s[p] * 2 + s[p + 1:]
                elif op < 0.8:
                    s = s[:p] + rng.choice(flat) + s[p:]
                else:
                    q = rng.randrange(len(s))
                    l = list(s)
                    l[p], l[q] = l[q], l[p]
                    s = "".join(l)
        s = s.replace("\r", " ")[:256]
        if rng.random() < 0.15:
            s = s + rng.choice(["\n", "\r\n"]) + rng.choice(flat)
        ftexts.append((s, rng.choice(LANGS + ["en", "en"]), rng.choice(cs)))
    run_texts(rep, ftexts, "c01.fuzz")
    rep.extra["fuzz_texts"] = len(ftexts)
    # ---- many tokens ----------------------------------------------------------------------------------------------------
    # the 256-character bound above also bounds the number of tokens of a line; counters of tokens have their own widths
    # (128, 256): lines of 60..300 repeated operands, ending in a variable, a conversion or an open parenthesis
    many = []
    for n in (60, 126, 127, 128, 129, 130, 254, 255, 256, 257, 300):
        for unit in ("1 + ", "$1 + ", "2 km + ", "3 * ", "1 hour "):
            for tail, pre in (("x", "x = 5\n"), ("1", ""), ("5 km to m", ""), ("10 usd to try", ""), ("blip", "blip = 10 usd\n"), ("(2", ""), ("y to cm", "y = 5 km\n")):
                many.append((pre + unit * n + tail, LANGS[len(many) % 2], cs[0]))
    run_texts(rep, many, "c01.many")
    rep.extra["many_token_texts"] = len(many)
    # the same evaluation with logging switched on (what an application sees after SmartCalc::initialize()): the arguments of the
    # library's log statements are then evaluated too.  Every text with an atom or a field, a third of the others.
    logged = [t for i, t in enumerate(texts) if i % 3 == 0 or "[" in t[0] or "{" in t[0]] + ftexts[::3]
    run_texts(rep, logged, "c01.logged", logger=True)
    rep.extra["texts_evaluated_with_logging_on"] = len(logged)
    # the implementation-shaped layer: rule engine model check + hook-based conformance (non-gating, reported in the evidence)
    from props import pipeline_part
    pipeline_part.run(rep, quick)
    # the kind algebra (spec/Kinds.tla): A op B for every pair of kinds; descriptive, non-gating ("drift")
    from props import kinds_part
    kinds_part.run(rep, quick)
    rep.extra["explanation"] = ("panic / termination freedom is bounded exploration driven by the alphabet the model enumerates; TLC validates the slot structure of every execution")
