"""C11 Clock times and zones: conversion keeps the instant, arithmetic is modulo 24 h (DESIGN 7, C11).

 S  MC_Clock: round trip wall -> instant -> wall, composition of conversions, shift inverse and modulo, symmetric difference
 G  Gen_Clock: TLC enumerates time literals x every usable zone of the table (+ GMT forms), conversions over ordered zone
    pairs, shifts by durations, differences, under three default zones; replayed in every admissible spelling
 T  random times / zones / durations / default zones; trace validated by TLC (Trace.tla)
"""
import json
import os
import random

import forms
import render
from vlib import OUT, ToolError, tlc, tlc_must_pass

LEVEL = "model_checking"
NOZONE = {"name": "", "off": 0}


def zones_file():
    zs = render.usable_zones()
    gmt = [{"name": n, "off": o} for n, o in render.GMT_FORMS]
    sub = render.zone_subset(zs, 40) + gmt[:4]
    by = {z["name"]: z for z in zs}
    defaults = [{"name": "UTC", "off": 0}]
    for cand in ("CET", "EST", "IST"):
        if cand in by and by[cand]["off"] != 0 and len(defaults) < 2:
            defaults.append(by[cand])
    defaults.append({"name": "GMT-11:30", "off": -690})
    if "UTC" not in by or by["UTC"]["off"] != 0:
        raise ToolError("zone table has no UTC entry with offset 0")
    d = {"all": zs + gmt, "sub": sub, "defaults": defaults}
    os.makedirs(os.path.join(OUT, "run"), exist_ok=True)
    p = os.path.join(OUT, "run", "zones.json")
    with open(p, "w", encoding="utf-8") as f:
        json.dump(d, f)
    return p, d


def cfg_for(defz):
    return render.cfg_with(tz=defz["name"], tz_off=defz["off"])


def line_feat(line):
    f = {"form": line["form"], "zone": "explicit" if line["z"]["name"] else "default"}
    return f


def cls(kind, feat):
    return "%s|%s|%s|def=%s|%s" % (kind, feat["form"], feat["zone"], feat.get("deftz", ""), feat.get("variant", "")[:6])


def renderings(line, salt, all_spellings):
    f = line["form"]
    sps = render.time_spellings(line["w"], True)
    if not all_spellings:
        sps = [sps[salt % len(sps)]]
    out = []
    for i, (sp, _) in enumerate(sps):
        zc = "lower" if (salt + i) % 3 == 0 else "upper"
        t1 = render.time_text(line["w"], line["z"], sp, zc)
        if f == "time_lit":
            out.append((sp, t1))
        elif f == "time_conv":
            kw = ["to", "in", "as", "into"][(salt + i) % 4]
            if kw == "in" and not line["z"]["name"]:
                kw = "to"      # 'in' directly after a digit is the inch (Appendix B)
            if kw == "in" and sp[-2:].lower() in ("am", "pm") and not line["z"]["name"]:
                kw = "to"
            out.append((sp + "." + kw, "%s %s %s" % (t1, kw, render.zone_text(line["z2"], "upper" if i % 2 == 0 else "lower"))))
        elif f == "time_shift":
            out.append((sp, "%s %s %s" % (t1, line["op"], render.dur_parts_text(line["parts"], "en", salt + i))))
        elif f == "time_diff":
            sps2 = render.time_spellings(line["w2"], True)
            sp2 = sps2[(salt + i) % len(sps2)][0]
            out.append((sp + "." + sp2, "%s to %s" % (t1, render.time_text(line["w2"], line["z2"], sp2))))
    return out


def run(rep):
    quick = rep.tier == "quick"
    render.check_pool_words()
    zpath, zd = zones_file()
    rep.rule = ("TLC enumerates time lines: 7 wall times x every usable zone name of config.json (%d) and 8 GMT forms, conversions over ordered zone pairs "
                "(quick: a stratified subset of 44 zones, thorough: all), shifts by 7 durations x 2 signs, differences; under 3 default zones. A case = one "
                "line in one admissible spelling (24 h, with seconds, am/pm forms); non-trivial = zone conversion, shift or difference, or an explicit zone. "
                "Random part: random times, zones, durations and default zones validated by TLC." % len(zd["all"]))
    rep.assumptions = ["renderer lib/render.py (time spellings, zone names from config.json timezones)", "zone offsets are those of config.json (the property says 'the table')",
                       "12:xx am is 00:xx and 12:xx pm is 12:xx (the pinned tree reads 12:xx am as noon: known finding); zone names that are also currency codes or month names are left out",
                       "'T1 to T2' is only specified when neither wall - offset leaves the day (one reading only)", "process time zone fixed to UTC", "TLC 1.8.0"]
    r = tlc_must_pass("MC_Clock", "MC_Clock", workers=8, timeout=900)
    rep.add_tlc("MC_Clock", r)
    import apalache
    apalache.prove(rep, ['ClockLemma'] if quick else ['ClockLemma'])
    g = tlc("Gen_Clock", "Gen_Clock" if quick else "Gen_Clock_thorough", workers=8, timeout=2400, env={"ZONES": zpath}, heap="8g")
    if not g.ok:
        raise ToolError("Gen_Clock failed: %s" % (g.violated or g.error))
    rep.add_tlc("Gen_Clock", g)
    gen = sorted(g.cases, key=forms.canon)
    seen = {c["line"]["form"] for c in gen}
    if seen != {"time_lit", "time_conv", "time_shift", "time_diff"}:
        raise ToolError("vacuous generator: forms %s" % seen)
    if not any(c["expected"]["k"] == "dur" for c in gen):
        raise ToolError("vacuous generator: no specified time difference")
    items = []
    for gi, c in enumerate(gen):
        line = c["line"]
        cfg = cfg_for(c["def"])
        allsp = line["form"] == "time_lit" and (c["def"]["name"] == "UTC") and (not line["z"]["name"] or gi % 5 == 0)
        for var, text in renderings(line, gi, allsp):
            feat = line_feat(line)
            feat["deftz"] = c["def"]["name"]
            feat["twelve_am"] = "12am" in var
            items.append({"line": line, "text": text, "cfg": cfg, "lang": "en", "expected": c["expected"], "variant": var, "feat": feat,
                          "class_fn": cls, "nontrivial": line["form"] != "time_lit" or bool(line["z"]["name"])})
    forms.replay(rep, items, "c11.gen")
    random_trace(rep, zd, 3000 if quick else 200000)
    # the configuration tables as a model (spec/Config.tla): reported in the evidence, gating nothing here
    import lint
    lint.report(rep, (), "config")


def random_trace(rep, zd, n):
    rng = random.Random(rep.seed * 7577 + 11)
    _n = n
    zones = zd["all"]
    items = []
    for i in range(n):
        defz = rng.choice([{"name": "UTC", "off": 0}] * 3 + zones)
        if defz["name"].startswith("GMT") and defz["name"] == "GMT+0530":
            defz = {"name": "UTC", "off": 0}

        def rz():
            return dict(NOZONE) if rng.random() < 0.35 else rng.choice(zones)

        def rw():
            r = rng.random()
            if r < 0.4:
                return rng.randrange(0, 86400)
            if r < 0.8:
                return rng.randrange(0, 1440) * 60
            return rng.randrange(0, 24) * 3600
        x = rng.random()
        if x < 0.25:
            line = {"form": "time_lit", "w": rw(), "z": rz()}
        elif x < 0.6:
            line = {"form": "time_conv", "w": rw(), "z": rz(), "z2": rng.choice(zones)}
        elif x < 0.85:
            parts = [{"n": rng.randint(0, 5000), "u": rng.choice(["second", "minute", "hour", "day"])} for _ in range(rng.randint(1, 3))]
            line = {"form": "time_shift", "w": rw(), "z": rz(), "op": rng.choice("+-"), "parts": parts}
        else:
            z = rz()
            line = {"form": "time_diff", "w": rw(), "z": z, "w2": rw(), "z2": z if rng.random() < 0.7 else rz()}
        rs = renderings(line, i, True)
        var, text = rs[rng.randrange(len(rs))]
        feat = line_feat(line)
        feat["deftz"] = defz["name"]
        feat["twelve_am"] = "12am" in var
        items.append({"line": line, "text": text, "cfg": cfg_for(defz), "lang": "en", "variant": "random", "feat": feat, "class_fn": cls})
    forms.trace(rep, items, "c11.rand")
    zone_histories(rep, zd, rng, max(20, n // 60))


def zone_histories(rep, zd, rng, nhist):
    """the default zone is state of the calculator: histories of set_timezone calls (table names in any letter case, GMT forms, names
    that denote no zone) interleaved with evaluations of times that name no zone; validated by TLC (SetTimezone action)"""
    import re
    import proj
    from tracev import reset_event, validate_trace
    from vlib import run_harness_stable_day
    table = {z["name"]: z["off"] for z in render.usable_zones()}
    allnames = dict(render.config_json()["timezones"])
    cases, metas = [], []
    for hi in range(nhist):
        steps, evs = [], []
        two = hi % 3 == 2          # every third history: two calculators alive in the process, each with a default zone of its own
        on = 1
        for k in range(30 + (15 if two else 0)):
            if two and rng.random() < 0.3:
                evs.append({"ev": "switch", "from": on, "to": 3 - on})
                on = 3 - on
            tag = {"calc": 2} if on == 2 else {}
            if rng.random() < 0.35:
                x = rng.random()
                if x < 0.5:
                    n = rng.choice(sorted(table))
                    sp = n            # as the table spells it: whether the API argument is case-insensitive is not stated
                    w = {"kind": "table", "name": n}
                elif x < 0.8:
                    sign, h, m = rng.choice([1, -1]), rng.randint(0, 14), rng.choice([0, 0, 30, 45, 15])
                    sp = "GMT%s%d%s" % ("+" if sign > 0 else "-", h, (":%02d" % m) if m or rng.random() < 0.3 else "")
                    w = {"kind": "gmt", "name": sp, "sign": sign, "h": h, "m": m}
                else:
                    sp = rng.choice(["XYZ", "Q", "12", "", "EUROPE", "Moon", "??"])
                    w = {"kind": "none"}
                    if sp.upper() in allnames:
                        continue
                steps.append(dict({"op": "set_tz", "v": sp}, **tag))
                evs.append({"ev": "set_tz", "w": w})
            else:
                wall = rng.randrange(0, 1440) * 60
                if rng.random() < 0.5:
                    line = {"form": "time_lit", "w": wall, "z": dict(NOZONE)}
                else:
                    line = {"form": "time_conv", "w": wall, "z": dict(NOZONE), "z2": rng.choice(zd["all"])}
                rs = [r for r in renderings(line, k, True) if "12am" not in r[0]]       # 12:xx am is the known finding of the literal forms
                rs = [rs[k % len(rs)]]
                steps.append(dict({"op": "execute", "lang": "en", "text": rs[0][1]}, **tag))
                evs.append({"ev": "execute", "lang": "en", "lines": [line]})
        case = {"id": "zh%d" % hi, "cfg": render.cfg_with(), "steps": steps, "fresh": True}
        if two:
            case["two"] = True
        cases.append(case)
        metas.append(evs)
    obs = run_harness_stable_day(cases, "c11.hist", jobs=8)
    events, index = [], []
    for case, evs, o in zip(cases, metas, obs):
        events.append(reset_event(case["cfg"], o.get("day0", 0), extra=dict({"zones": allnames}, **({"two": True} if case.get("two") else {}))))
        index.append(None)
        steps = o.get("steps") or []
        k = -1
        for e in evs:
            if e["ev"] == "switch":      # an event of the trace, not a call
                events.append(dict(e))
                index.append(None)
                continue
            k += 1
            st = steps[k] if k < len(steps) else o
            ev = dict(e)
            if e["ev"] == "set_tz":
                ok = st.get("outcome") == "returned"
                ev["ret"] = ("true" if st.get("ret") else "false") if ok else "panic"
                ev["name"] = (st.get("tz") or {}).get("name", "")
                ev["off"] = (st.get("tz") or {}).get("off", 0)
            else:
                ss = proj.slots_of_step(st)
                if ss is None:
                    ev["status"], slots = True, [{"k": st.get("outcome", "panic")}]
                else:
                    ev["status"], slots = ss
                    for sl in slots:
                        if sl.get("k") == "time":
                            sl["pr"] = proj.time_printed(sl.get("out", ""))
                ev["obs"] = [proj.trace_slot(sl) for sl in slots]
            events.append(ev)
            index.append((case, k, st))
            rep.case([case["id"], k], True)
    bad = validate_trace(rep, events, "c11.hist")
    for b in bad:
        case, k, st = index[b["l"] - 1]
        rep.violation({"check": "trace", "form": "history", "case": case, "step": k, "expected": b["expected"], "observed": st,
                       "feat": {"form": "history", "what": case["steps"][k]["op"], "failure": "wrong"}, "class": "zone-history|%s" % case["steps"][k]["op"]})
    if cases:
        rep.sample({"zone_history": cases[0]["steps"][:8]})
