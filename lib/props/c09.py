"""C09 Dates are read as calendar dates and date arithmetic is calendar arithmetic (DESIGN 7, C09).

 S  MC_Calendar: days <-> civil round trip, successor structure, shift / difference algebra for every day of a year range
 G  Gen_Calendar: TLC enumerates dates over boundary years x months x days, shifts by day / week / month / year counts, differences,
    impossible dates, day keywords and year-less dates, with expected values; replayed in every spelling, en and tr, and under
    pretended dates (clock shim) for the lines whose meaning depends on today
 T  uniformly random dates of years 1..9999, random counts; trace validated by TLC (Trace.tla)
"""
import datetime
import json
import os
import random
import time

import forms
import render
from vlib import OUT, ToolError, tlc, tlc_must_pass

LEVEL = "model_checking"
CFG = render.cfg_with()
UNIT_WORD = {"day": ("day", "days"), "week": ("week", "weeks"), "month": ("month", "months"), "year": ("year", "years")}
FAKE_DAYS = [datetime.date(2024, 2, 29), datetime.date(2023, 12, 31), datetime.date(2025, 1, 1)]


def epoch_days(d):
    return (d - datetime.date(1970, 1, 1)).days


def consts_file(today_days, mode, tag):
    os.makedirs(os.path.join(OUT, "run"), exist_ok=True)
    p = os.path.join(OUT, "run", "c09.%s.json" % tag)
    with open(p, "w") as f:
        json.dump({"today": today_days, "mode": mode}, f)
    return p


def civil_of(a, cury):
    return (a["y"] or cury, a["m"], a["d"])


def line_feat(line, cury, today_days=None):
    f = {"form": line["form"]}
    a = line.get("a", {})
    f["base"] = "rel" if "rel" in a else ("noyear" if a.get("y") == 0 else "full")
    if line["form"] == "date_shift":
        f["unit"] = line["u"]
        f["op"] = line["op"]
        f["n"] = line["n"]
        f["total_days"] = line["n"] * {"day": 1, "week": 7, "month": 30, "year": 365}[line["u"]]
        if "rel" not in a or today_days is not None:
            if "rel" in a:
                dd = datetime.date(1970, 1, 1) + datetime.timedelta(days=today_days + a["rel"])
                y, m, d = dd.year, dd.month, dd.day
            else:
                y, m, d = civil_of(a, cury)
            f["day_of_month"] = d
            if line["u"] == "month":
                k = line["n"] % 12
                f["borrow"] = bool(line["op"] == "-" and m - k <= 0)
                f["carry"] = bool(line["op"] == "+" and m + k > 12)
    return f


def cls(kind, feat):
    return "%s|%s|%s|%s|%s%s|n=%s|tz=%s" % (kind, feat["form"], feat["lang"], feat["base"], feat.get("op", ""), feat.get("unit", ""), feat.get("n", ""), feat.get("deftz", "UTC"))


def dur_word(n, u, lang, salt):
    ws = render.duration_words(lang)[u]
    if lang == "en":
        return UNIT_WORD[u][0 if n == 1 else 1]
    return ws[salt % len(ws)]


def renderings(line, lang, salt, all_names):
    f = line["form"]
    out = []
    if f == "date_lit":
        return render.date_texts(line["a"], lang, all_names, salt)
    if f == "date_shift":
        ats = render.date_texts(line["a"], lang, False, salt)
        for var, t in ats[:3]:
            out.append((var, "%s %s %d %s" % (t, line["op"], line["n"], dur_word(line["n"], line["u"], lang, salt))))
        return out
    if f == "date_diff":
        ats = render.date_texts(line["a"], lang, False, salt)
        bts = render.date_texts(line["b"], lang, False, salt + 1)
        if not ats or not bts:
            return []
        picks = [(0, 0), (len(ats) - 1, len(bts) - 1)] if len(ats) > 1 else [(0, 0)]
        for i, j in picks:
            if lang == "en":
                out.append((ats[i][0] + "." + bts[j][0], "%s to %s" % (ats[i][1], bts[j][1])))
                if i == 0 and salt % 4 == 0:
                    # a date shown in a zone is still that calendar date: the difference counts days, whatever zone tag an operand carries
                    out.append((ats[i][0] + ".zoned." + bts[j][0], "%s to %s to %s" % (ats[i][1], ["EST", "GMT+5:30", "CET"][salt % 3], bts[j][1])))
            elif lang == "tr":
                out.append((ats[i][0] + "." + bts[j][0], "%s %s arası" % (ats[i][1], bts[j][1])))
        return out
    return out


def gen_items(rep, today_days, mode, fake_epoch, quick, tag):
    cpath = consts_file(today_days, mode, tag)
    g = tlc("Gen_Calendar", "Gen_Calendar" if quick else "Gen_Calendar_thorough", workers=8, timeout=1800, env={"CONSTS": cpath}, heap="8g")
    if not g.ok:
        raise ToolError("Gen_Calendar failed: %s" % (g.violated or g.error))
    rep.add_tlc("Gen_Calendar(%s)" % tag, g)
    gen = sorted(g.cases, key=forms.canon)
    kinds = {c["expected"]["k"] for c in gen}
    if not {"date", "notkind"} <= kinds or (mode == "full" and "dur" not in kinds):
        raise ToolError("vacuous generator: expected kinds %s" % kinds)
    cury = None
    items = []
    for gi, c in enumerate(gen):
        line = c["line"]
        if c["expected"].get("cury"):
            cury = c["expected"]["cury"]
        for lang in render.languages():
            for var, text in renderings(line, lang, gi, line["form"] == "date_lit" and gi % 4 == 0):
                items.append({"line": line, "text": text, "cfg": CFG, "lang": lang, "expected": c["expected"], "variant": var, "today": fake_epoch,
                              "feat": line_feat(line, cury or 2000, today_days), "class_fn": cls, "nontrivial": line["form"] != "date_lit"})
    return items


def run(rep):
    quick = rep.tier == "quick"
    render.check_pool_words()
    rep.rule = ("TLC enumerates date lines: literals over 10 boundary years x 12 months x days 1,15,28..31, impossible dates, day keywords, dates without a year, "
                "shifts (23 offsets x 2 directions over boundary dates), differences over a 60-date subset; a case = one line in one spelling (d/m/y, 'd Month y', "
                "'Month d, y', 'Month d y', 'd Month'; long / short month names) and one language; the today-dependent lines are also run under pretended dates "
                "(29 Feb 2024, 31 Dec 2023, 1 Jan 2025) through the clock shim. Non-trivial = shift, difference or a year-less / relative date. Random part: uniform dates "
                "in years 1..9999, counts to 10^4, validated by TLC.")
    rep.assumptions = ["renderer lib/render.py (month names and day keywords from config.json)", "projection date_printed (language formats)",
                       "month / year shifts are only specified where the target month has the day", "clock shim shim/clock.c for pretended dates",
                       "a run that straddles 00:00 UTC re-executes the affected cases", "TLC 1.8.0"]
    r = tlc_must_pass("MC_Calendar", "MC_Calendar_b" if quick else "MC_Calendar_thorough", workers=12, timeout=3000)
    rep.add_tlc("MC_Calendar", r)
    import apalache
    apalache.prove(rep, ['CalAgree'] if quick else ['CalAgree', 'CalLemma'])
    today = int(time.time()) // 86400
    items = gen_items(rep, today, "full", None, quick, "real")
    fakes = FAKE_DAYS[:1] if quick else FAKE_DAYS
    for d in fakes:
        items += gen_items(rep, epoch_days(d), "today", epoch_days(d) * 86400 + 43200, quick, d.isoformat())
    # the calendar date a line denotes, and the date that is printed, do not depend on the configured default zone
    zoned = []
    for zi, (zn, zo) in enumerate((("GMT-5", -300), ("GMT+5:30", 330), ("GMT-11:30", -690))):
        for it in items[zi::(23 if quick else 7)]:
            if it.get("today") is None:
                z = dict(it)
                z["cfg"] = render.cfg_with(tz=zn, tz_off=zo)
                z["feat"] = dict(it["feat"], deftz=zn)
                zoned.append(z)
    import lint
    lint.report(rep, ("long_months", "short_months", "constant_pair"), "date_lit")
    # today / tomorrow / yesterday are consecutive days whatever the default zone and the time of day: the differences between
    # the day keywords under zones east and west of Greenwich, shortly before and after 00:00 UTC (clock shim)
    for d in fakes[:1]:
        for zn, zo, hour in (("GMT+5:30", 330, 23), ("GMT-11:30", -690, 1), ("GMT+12", 720, 13), ("GMT-11:30", -690, 10)):
            ep = epoch_days(d) * 86400 + hour * 3600 + 1800
            for it in items:
                if it.get("today") is not None and it["line"]["form"] == "date_diff" and all("rel" in it["line"][x] for x in ("a", "b")) and it["today"] // 86400 == epoch_days(d):
                    z = dict(it)
                    z["cfg"] = render.cfg_with(tz=zn, tz_off=zo)
                    z["today"] = ep
                    z["feat"] = dict(it["feat"], deftz=zn)
                    zoned.append(z)
    forms.replay(rep, items + zoned, "c09.gen")
    random_trace(rep, 3000 if quick else 40000)


def rand_date(rng):
    y = rng.choice([rng.randint(1, 9999), rng.randint(1900, 2100), rng.randint(1900, 2100)])
    m = rng.randint(1, 12)
    dim = [31, 29 if (y % 4 == 0 and y % 100 != 0) or y % 400 == 0 else 28, 31, 30, 31, 30, 31, 31, 30, 31, 30, 31][m - 1]
    return {"y": y, "m": m, "d": rng.randint(1, dim)}


def random_trace(rep, n):
    rng = random.Random(rep.seed * 9176 + 9)
    items = []
    cury = datetime.datetime.utcnow().year
    for i in range(n):
        lang = rng.choice(render.languages())
        x = rng.random()
        if x < 0.3:
            line = {"form": "date_lit", "a": rand_date(rng)}
        elif x < 0.75:
            u = rng.choice(["day", "day", "week", "month", "year"])
            nmax = {"day": 10000, "week": 1500, "month": 200, "year": 60}[u]
            a = rand_date(rng)
            a["y"] = min(max(a["y"], 100), 9900)
            if u in ("month", "year"):
                a["d"] = min(a["d"], 28)
            line = {"form": "date_shift", "a": a, "op": rng.choice("+-"), "n": rng.choice([rng.randint(0, 29), rng.randint(0, nmax)]), "u": u}
        else:
            line = {"form": "date_diff", "a": rand_date(rng), "b": rand_date(rng)}
        rs = renderings(line, lang, i, False)
        if not rs:
            continue
        var, text = rs[rng.randrange(len(rs))]
        cfg = CFG if rng.random() < 0.6 else render.cfg_with(**dict(zip(("tz", "tz_off"), rng.choice([("GMT-5", -300), ("GMT+5:30", 330), ("GMT-11:30", -690), ("CET", 60)]))))
        items.append({"line": line, "text": text, "cfg": cfg, "lang": lang, "variant": "random", "feat": dict(line_feat(line, cury), deftz=cfg["tz"]), "class_fn": cls})
    forms.trace(rep, items, "c09.rand")
