"""C06 Money literals, currency conversion and money arithmetic follow the rate table (DESIGN 7, C06).

 S  MC_Percent (shared): conversion identity / transitivity / inverse, arithmetic, Canon, RateFrame on exact rates (TLC);
    Gen_Money also checks EvalFramesCalc and the return values of update_currency on every enumerated history
 G  Gen_Money: literals in every rated currency and spelling, conversions over all ordered pairs of rated currencies under the
    configured rates (term expectation) and under exact rates set through update_currency, money arithmetic, and every history
    of 3 (thorough 4) calls over update_currency (code, alias, unknown) / evaluate with expected return values and results
 T  random update / evaluate histories with exact rates; trace validated by TLC (Trace.tla); every third history has two
    calculators alive in the process (Trace.tla `parked`, event `switch`), each with rates of its own
 P  pairs of TLC's histories lived by two calculators of one process, randomly interleaved
"""
import json
import os
import random
from fractions import Fraction

import compare
import forms
import proj
import render
from tracev import reset_event, validate_trace
from vlib import OUT, ToolError, fraction_to_q, q_to_fraction, run_harness_stable_day, tlc, tlc_must_pass

LEVEL = "model_checking"
CFGS = [render.cfg_with(), render.cfg_with(dec=".", tho=",")]


def tables():
    c = render.config_json()
    return {"rated": render.rated_currencies(), "alias": {k.lower(): v.lower() for k, v in c["currency_alias"].items()},
            "codes": sorted(k.lower() for k in c["currencies"])}


def consts():
    os.makedirs(os.path.join(OUT, "run"), exist_ok=True)
    p = os.path.join(OUT, "run", "c06.json")
    with open(p, "w", encoding="utf-8") as f:
        json.dump(tables(), f, ensure_ascii=False)
    return p


def rate_float(q):
    return float(q_to_fraction(q))


def lit_texts(x, cfg, every, salt):
    """spellings of the money operand x; amounts divisible by 1000 / 10^6 are also spelled with a k / M suffix"""
    out = render.money_texts(x["q"], x["cur"], cfg, every, salt)
    fr = q_to_fraction(x["q"])
    for suf, m in (("k", 1000), ("M", 10 ** 6)):
        if fr != 0 and (fr / m).denominator in (1, 2) and abs(fr / m) >= Fraction(1, 2):
            more = render.money_texts(fraction_to_q(fr / m), x["cur"], cfg, every, salt + 1, suffix=suf)
            out += [(v + "." + suf, t) for v, t in more]
    return out


def target_texts(code, salt):
    sp = render.currency_spellings(code)
    out = [code, code.upper()] + [w for w in sp["words"]]
    return out


def renderings(line, cfg, salt, every):
    f = line["form"]
    out = []
    if f == "money_lit":
        return lit_texts(line["x"], cfg, True, salt)
    if f == "money_conv":
        tts = target_texts(line["target"], salt)
        for i, (v, t) in enumerate(lit_texts(line["x"], cfg, every, salt)):
            for j, kw in enumerate(("to", "in", "as", "into", "")):
                if not every and (salt + i + j) % 3:
                    continue
                if kw == "in" and t[-1].isdigit():
                    continue
                tt = tts[(salt + j) % len(tts)]
                out.append(("%s.%s" % (v, kw or "none"), "%s %s%s" % (t, (kw + " ") if kw else "", tt)))
        if not out:
            v, t = lit_texts(line["x"], cfg, False, salt)[0]
            out.append((v + ".to", "%s to %s" % (t, tts[0])))
        return out
    if f == "money_arith":
        ls = lit_texts(line["l"], cfg, every, salt)
        if line["r"]["cur"]:
            rs = lit_texts(line["r"], cfg, every, salt + 2)
        else:
            rs = [("num", render.number_text(q_to_fraction(line["r"]["q"]), cfg["dec"], cfg["tho"]))]
        for i, (lv, lt) in enumerate(ls):
            rv, rt = rs[i % len(rs)]
            out.append(("%s.%s" % (lv, rv), "%s %s %s" % (lt, line["op"], rt)))
        return out
    return out


def feat_of(line, text=""):
    f = {"form": line["form"], "op": line.get("op", "")}
    f["non_ascii_alias"] = any(ord(ch) > 127 and ch.isalpha() for ch in text)
    return f


def cls(kind, feat):
    return "%s|%s|%s|%s|na=%s" % (kind, feat["form"], feat["op"], feat.get("variant", "")[:12], feat["non_ascii_alias"])


ZONE_NAMES = set()


def run(rep):
    quick = rep.tier == "quick"
    render.check_pool_words()
    ZONE_NAMES.update(k.upper() for k in render.config_json().get("timezones", {}))
    rep.rule = ("TLC enumerates money literals (5 amounts x every rated currency), conversions over all ordered pairs of rated currencies x 2 amounts under the configured rates, "
                "conversions and arithmetic over 4 currencies under exact rates set through update_currency, and every history of 3 (thorough 4) calls over "
                "update_currency(code | alias | unknown, 4 rates) and 4 evaluated lines. A case = one line in one spelling (symbol before / after, code, CODE, glued, alias word, "
                "k / M suffix; keyword to / in / as / into / none) and separator configuration, or one history; non-trivial = two different currencies or a history "
                "with an update before an evaluation. Random part: histories of 12..40 calls with exact rates, validated by TLC; every third one on two calculators of one process. Pairs: 400 (thorough: 20,000) pairs of TLC's histories on two calculators, interleaved.")
    rep.assumptions = ["renderer lib/render.py (spellings from config.json currency_alias)", "configured rates are read from config.json (the property says 'the configured rate table'); "
                       "terms over them are evaluated in double precision by lib/compare.py at 1e-9", "TLC 1.8.0"]
    r = tlc_must_pass("MC_Percent", "MC_Percent", workers=4, timeout=600)
    rep.add_tlc("MC_Percent(money)", r)
    g = tlc("Gen_Money", "Gen_Money" if quick else "Gen_Money_thorough", workers=8, timeout=2400, env={"CONSTS": consts()}, heap="8g")
    if not g.ok:
        raise ToolError("Gen_Money failed: %s" % (g.violated or g.error))
    rep.add_tlc("Gen_Money", g)
    gen = sorted(g.cases, key=forms.canon)
    lines = [c for c in gen if c["kind"] == "line"]
    hists = [c for c in gen if c["kind"] == "hist"]
    if not lines or not hists or not any(c["expected"]["k"] == "term" for c in lines) or not any(c["expected"]["k"] == "money" and c["pre"] for c in lines):
        raise ToolError("vacuous generator")
    items = []
    for gi, c in enumerate(lines):
        line = c["line"]
        cfg = CFGS[gi % 2]
        pre = [{"op": "update_currency", "cur": p["cur"], "rate": rate_float(p["q"])} for p in c["pre"]]
        two = line["form"] != "money_lit" and (line.get("target") or line.get("r", {}).get("cur")) != (line.get("x") or line.get("l"))["cur"]
        rs = renderings(line, cfg, gi, gi % 11 == 0)
        if len(c["pre"]) == 1:
            rs = rs[:1]          # the rate-frame family (one update, then a conversion): one spelling each
            if line.get("target", "").upper() in ZONE_NAMES:
                continue         # Appendix B: a conversion target that is also a zone name (tmt, wst ...) is read as the zone
        for var, text in rs:
            items.append({"line": line, "text": text, "cfg": cfg, "lang": "en", "expected": c["expected"], "variant": var, "pre": pre,
                          "feat": feat_of(line, text), "class_fn": cls, "nontrivial": two})
    forms.replay(rep, items, "c06.gen")
    if forms.CAPTURE is not None:
        return
    replay_histories(rep, hists)
    replay_pairs(rep, hists, 400 if quick else 20000)
    random_trace(rep, 150 if quick else 2000)
    # the configuration tables as a model (spec/Config.tla): reported in the evidence, gating nothing here
    import lint
    lint.report(rep, (), "config")


def replay_histories(rep, hists):
    cases = []
    for hi, c in enumerate(hists):
        cfg = CFGS[hi % 2]
        steps = []
        for k, h in enumerate(c["hist"]):
            if h["call"] == "update_currency":
                sp = h["cur"].upper() if (hi + k) % 3 == 0 else h["cur"]
                steps.append({"op": "update_currency", "cur": sp, "rate": rate_float(h["rate"])})
            else:
                rs = renderings(h["line"], cfg, hi + k, False)
                steps.append({"op": "execute", "lang": "en", "text": rs[0][1]})
        cases.append({"id": "h%d" % hi, "cfg": cfg, "steps": steps, "fresh": True})
    obs = run_harness_stable_day(cases, "c06.hist", jobs=8)
    for c, case, o in zip(hists, cases, obs):
        steps = o.get("steps") or []
        upd_before_eval = False
        seen_upd = False
        for h in c["hist"]:
            if h["call"] == "update_currency" and h["ret"]:
                seen_upd = True
            elif h["call"] == "execute" and seen_upd:
                upd_before_eval = True
        rep.case(c["hist"], upd_before_eval)
        rep.replayed += 1
        if len(rep.samples) < 7 and upd_before_eval:
            rep.sample({"history": [s for s in case["steps"]], "expected": [h.get("expected", h.get("ret")) for h in c["hist"]]})
        for k, h in enumerate(c["hist"]):
            st = steps[k] if k < len(steps) else o
            ok = True
            if h["call"] == "update_currency":
                ok = st.get("outcome") == "returned" and st.get("ret") == h["ret"]
                what = "ret"
            else:
                ss = proj.slots_of_step(st)
                slot = ss[1][0] if ss and ss[0] is True and len(ss[1]) == 1 else None
                ok = compare.match_slot(h["expected"], slot)
                what = h["line"]["form"]
            if not ok:
                rep.violation({"check": "replay", "form": "history", "case": case, "history": c["hist"], "step": k, "observed": st,
                               "expected_slots": [[i, [x["expected"]]] for i, x in enumerate(c["hist"]) if x["call"] == "execute"],
                               "feat": {"form": "history", "what": what, "failure": compare.failure_kind(None, st)},
                               "class": "history|%s|step%d|prev=%s" % (what, k, c["hist"][k - 1]["call"] if k else "none")})
                break


def hist_steps(c, cfg, salt, calc=None):
    steps = []
    for k, h in enumerate(c["hist"]):
        if h["call"] == "update_currency":
            st = {"op": "update_currency", "cur": h["cur"], "rate": rate_float(h["rate"])}
        else:
            st = {"op": "execute", "lang": "en", "text": renderings(h["line"], cfg, salt + k, False)[0][1]}
        if calc:
            st["calc"] = calc
        steps.append(st)
    return steps


def replay_pairs(rep, hists, n):
    """Two calculators alive in one process, each living one of TLC's histories, their calls interleaved: the state of the
    model is per calculator (two copies of SmartCalc.tla composed by interleaving share no variable), so every call is
    expected to return what it returns in its own history alone."""
    rng = random.Random(rep.seed * 6011 + 66)
    withupd = [c for c in hists if any(h["call"] == "update_currency" and h["ret"] for h in c["hist"])]
    if not withupd:
        return
    cases, metas = [], []
    for pi in range(n):
        a = withupd[pi % len(withupd)]
        b = hists[rng.randrange(len(hists))]
        if pi % 2:
            a, b = b, a
        cfg = CFGS[pi % 2]
        sa, sb = hist_steps(a, cfg, pi, None), hist_steps(b, cfg, pi + 1, 2)
        order = [(1, k) for k in range(len(sa))] + [(2, k) for k in range(len(sb))]
        # a random interleaving that keeps each calculator's own order
        pick = sorted(rng.sample(range(len(order)), len(sa)))
        steps, meta, ia, ib = [], [], 0, 0
        for pos in range(len(order)):
            if ia < len(sa) and pos == pick[ia]:
                steps.append(sa[ia]); meta.append((a, ia)); ia += 1
            else:
                steps.append(sb[ib]); meta.append((b, ib)); ib += 1
        cases.append({"id": "p%d" % pi, "cfg": cfg, "steps": steps, "fresh": True, "two": True})
        metas.append(meta)
    obs = run_harness_stable_day(cases, "c06.pairs", jobs=8)
    for case, meta, o in zip(cases, metas, obs):
        steps = o.get("steps") or []
        rep.case(["pair", case["steps"]], True)
        rep.replayed += 1
        for k, (c, hk) in enumerate(meta):
            h = c["hist"][hk]
            st = steps[k] if k < len(steps) else o
            if st.get("outcome") == "toolerror":
                raise ToolError("pairs: %s" % st)
            if h["call"] == "update_currency":
                ok = st.get("outcome") == "returned" and st.get("ret") == h["ret"]
                what = "ret"
            else:
                ss = proj.slots_of_step(st)
                slot = ss[1][0] if ss and ss[0] is True and len(ss[1]) == 1 else None
                ok = compare.match_slot(h["expected"], slot)
                what = h["line"]["form"]
            if not ok:
                rep.violation({"check": "replay", "form": "two-calculators", "case": case, "step": k, "observed": st, "expected": h.get("expected", h.get("ret")),
                               "feat": {"form": "two-calculators", "what": what, "failure": compare.failure_kind(None, st)},
                               "class": "two-calculators|%s|calc%d" % (what, case["steps"][k].get("calc", 1))})
                break
    if cases:
        rep.sample({"two_calculators": cases[0]["steps"]})


def random_trace(rep, nhist):
    rng = random.Random(rep.seed * 6007 + 6)
    t = tables()
    pool = ["usd", "eur", "try", "gbp", "jpy", "dkk"]
    pool = [p for p in pool if p in t["codes"]]
    spell = {c: [c] + [a for a, v in t["alias"].items() if v == c and a.isascii() and a.isalpha()] for c in pool}
    cases = []
    metas = []
    for hi in range(nhist):
        cfg = CFGS[rng.randint(0, 1)]
        two = hi % 3 == 2          # every third history has two calculators alive, with rate tables of their own
        steps = []
        evs = []
        have = {1: set(), 2: set()}
        # every pool currency gets an exact rate first (in random order, some twice), on each calculator
        order = {}
        for c_ in (1, 2):
            order[c_] = pool[:] + [rng.choice(pool) for _ in range(2)]
            rng.shuffle(order[c_])
        cur = 1
        n = rng.randint(12, 40) + (10 if two else 0)
        while len(steps) < n:
            if two and rng.random() < 0.3:
                to = 3 - cur
                evs.append({"ev": "switch", "from": cur, "to": to})
                steps.append(None)
                cur = to
            tag = {"calc": 2} if cur == 2 else {}
            if order[cur] or rng.random() < 0.25:
                if order[cur]:
                    c = order[cur].pop()
                    s = rng.choice(spell[c])
                else:
                    c = rng.choice(pool + ["zzz"])
                    s = rng.choice(spell.get(c, ["zzz", "qqq"]))
                rate = Fraction(rng.randint(1, 40), 4)
                sp = s.upper() if rng.random() < 0.3 else s
                steps.append(dict({"op": "update_currency", "cur": sp, "rate": float(rate)}, **tag))
                evs.append({"ev": "update_currency", "cur": s.lower(), "rate": fraction_to_q(rate)})
                if c in pool:
                    have[cur].add(c)
                continue
            if len(have[cur]) < len(pool):
                continue
            a, b = rng.choice(pool), rng.choice(pool)
            amt = fraction_to_q(Fraction(rng.randint(-400, 400), rng.choice([1, 2, 4])))
            x = rng.random()
            if x < 0.45:
                line = {"form": "money_conv", "x": {"q": amt, "cur": a}, "target": b}
            elif x < 0.8:
                line = {"form": "money_arith", "l": {"q": amt, "cur": a}, "op": rng.choice("+-/"),
                        "r": {"q": fraction_to_q(Fraction(rng.randint(1, 200), rng.choice([1, 2, 4]))), "cur": b}}
            elif x < 0.9:
                line = {"form": "money_arith", "l": {"q": amt, "cur": a}, "op": rng.choice("*/"),
                        "r": {"q": fraction_to_q(Fraction(rng.randint(-20, 20), rng.choice([1, 2]))), "cur": ""}}
            else:
                line = {"form": "money_lit", "x": {"q": amt, "cur": a}}
            rs = renderings(line, cfg, len(steps) + hi, True)
            var, text = rs[rng.randrange(len(rs))]
            if any(ord(ch) > 127 and ch.isalpha() for ch in text):
                continue
            steps.append(dict({"op": "execute", "lang": "en", "text": text}, **tag))
            evs.append({"ev": "execute", "lang": "en", "lines": [line]})
        # a switch is an event of the trace, not a call: the harness steps are the calls, each tagged with its calculator
        hsteps = [s_ for s_ in steps if s_ is not None]
        hidx, k_ = [], 0
        for s_ in steps:
            hidx.append(None if s_ is None else k_)
            k_ += 0 if s_ is None else 1
        case = {"id": "r%d" % hi, "cfg": cfg, "steps": hsteps, "fresh": True}
        if two:
            case["two"] = True
        cases.append(case)
        metas.append((evs, hidx))
    obs = run_harness_stable_day(cases, "c06.rand", jobs=8)
    events = []
    index = []
    for case, (evs, hidx), o in zip(cases, metas, obs):
        extra = {"alias": t["alias"], "codes": t["codes"]}
        if case.get("two"):
            extra["two"] = True
        events.append(reset_event(case["cfg"], o.get("day0", 0), extra=extra))
        index.append(None)
        steps = o.get("steps") or []
        for ev, k in zip(evs, hidx):
            if k is None:
                events.append(dict(ev))
                index.append(None)
                continue
            st = steps[k] if k < len(steps) else o
            if st.get("outcome") == "toolerror":
                raise ToolError("c06.rand: %s" % st)
            e = dict(ev)
            if ev["ev"] == "update_currency":
                e["ret"] = ("true" if st.get("ret") else "false") if st.get("outcome") == "returned" else "panic"
            else:
                ss = proj.slots_of_step(st)
                if ss is None:
                    e["status"], slots = True, [{"k": st.get("outcome", "panic")}]
                else:
                    e["status"], slots = ss
                e["obs"] = [proj.trace_slot(s) for s in slots]
            events.append(e)
            index.append((case, k, st))
            rep.case([case["id"], k], True)
    bad = validate_trace(rep, events, "c06")
    for b in bad:
        case, k, st = index[b["l"] - 1]
        rep.violation({"check": "trace", "form": "history", "case": {kk: vv for kk, vv in case.items()}, "step": k, "expected": b["expected"], "observed": st,
                       "text": case["steps"][k].get("text", case["steps"][k]), "feat": {"form": "history", "what": case["steps"][k]["op"], "failure": "wrong"},
                       "class": "random-history|%s" % case["steps"][k]["op"]})
    if cases:
        rep.sample({"random_history": cases[0]["steps"][:10]})
