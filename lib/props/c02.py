"""C02 Arithmetic obeys precedence, associativity and parentheses (DESIGN 7, C02).

 S  MC_Arith: the token grammar of Arith.tla agrees with the tree semantics (TLC, exhaustive to depth 2)
 G  Gen_Arith: TLC enumerates all trees of depth <= 2 (+ suffixed literals); each is replayed into the code in
    three token spellings x five spacing patterns x two separator configurations (+ as an assignment)
 T  random trees of depth <= 6 are executed and the recorded trace is validated by TLC against Trace.tla
"""
import random
from fractions import Fraction

import proj
import qmirror
import render
from tracev import reset_event, validate_trace
from vlib import ToolError, close, q_to_fraction, tlc, tlc_must_pass, run_harness_stable_day, short_hash

LEVEL = "model_checking"
CFGS = [render.cfg_with(), render.cfg_with(dec=".", tho=",")]


def classify(slot, step):
    if step.get("outcome") == "panic":
        return "panic"
    if step.get("outcome") in ("crash", "hang"):
        return step["outcome"]
    if slot is None:
        return "no_slot"
    if slot["k"] == "err":
        return "error"
    if slot["k"] != "num":
        return "wrong_kind:" + slot["k"]
    return "wrong_value"


SUFX = {"": 0, "k": 3, "M": 6, "G": 9, "T": 12, "P": 15, "Z": 18, "Y": 21}


def eval_tree_f64(e):
    """double-precision value of an expression tree in exactly the order the tree prescribes; x / 0 = 0 (statement of C02).
    The tree comes from the specification (Gen_Arith); this is only the floating-point evaluation of it."""
    t = e["t"]
    if t == "lit":
        return float(Fraction(e["m"][0], e["m"][1]) * (10 ** SUFX[e.get("sfx", "")]) / (10 ** e.get("tiny", 0)))
    if t == "par":
        return eval_tree_f64(e["e"])
    if t == "neg":
        return -eval_tree_f64(e["e"])
    if t == "pos":
        return eval_tree_f64(e["e"])
    l, r = eval_tree_f64(e["l"]), eval_tree_f64(e["r"])
    if e["op"] == "+":
        return l + r
    if e["op"] == "-":
        return l - r
    if e["op"] == "*":
        return l * r
    if r == 0.0:
        return 0.0
    x = l / r
    return x if x == x and x not in (float("inf"), float("-inf")) else 0.0


def close_f64(want, got, rel=1e-12):
    if got is None:
        return False
    return abs(got - want) <= rel * abs(want) if want != 0 else abs(got) <= 1e-300


def feat_class(kind, feat):
    return "%s|sbp=%d|sin=%d|adj=%d|depth=%s|sfx=%s|sp=%s|var=%s" % (
        kind, feat["sign_before_paren"], feat["sign_inside"], feat["adjacent"], min(feat["paren_depth"], 3),
        feat["suffixes"], feat["spacing"], feat["variant"])


def run(rep):
    quick = rep.tier == "quick"
    render.check_pool_words()
    rep.rule = ("TLC enumerates expression trees (depth <= 2 over the literal set, plus suffixed literals to depth 1); "
                "a case = one tree in one token spelling (minimal / full parentheses / adjacency / assignment), one spacing "
                "pattern and one separator configuration; non-trivial = the tree has at least one operator. "
                "Random part: trees of depth <= 6, trace validated by TLC.")
    rep.assumptions = ["renderer lib/render.py (tokens -> text)", "projection f64 -> nearest small rational (lib/vlib.py float_to_q)",
                       "comparison tolerance 1e-9 relative for replayed cases; exact rational equality inside TLC for traces",
                       "TLC 1.8.0", "lines with a quotient chain that reads as day/month/year are outside C02 (Arith!DateLike)"]
    # ---- S: model-check the oracle --------------------------------------------------------------
    r = tlc_must_pass("MC_Arith", "MC_Arith" if quick else "MC_Arith_thorough", workers=8, timeout=900)
    rep.add_tlc("MC_Arith", r)
    # ---- G: generate and replay -----------------------------------------------------------------
    g = tlc("Gen_Arith", "Gen_Arith" if quick else "Gen_Arith_thorough", workers=8, timeout=1200)
    if not g.ok:
        raise ToolError("Gen_Arith failed: %s" % (g.violated or g.error))
    rep.add_tlc("Gen_Arith", g)
    gen = sorted(g.cases, key=lambda c: short_hash(c))
    cases = []
    meta = {}
    for gi, c in enumerate(gen):
        variants = []
        for sp in render.SPACINGS:
            variants.append(("min", c["min"], c["exp_min"], sp))
        h = int(short_hash(c["min"]), 16)
        variants.append(("full", c["full"], c["exp_full"], render.SPACINGS[h % 5]))
        variants.append(("full", c["full"], c["exp_full"], render.SPACINGS[(h // 5) % 5]))
        if c["adj"]:
            variants.append(("adj", c["adj"], c["exp_adj"], "single"))
            variants.append(("adj", c["adj"], c["exp_adj"], render.SPACINGS[(h // 25) % 5]))
        variants.append(("assign", c["min"], c["exp_min"], "single"))
        for ci, cfg in enumerate(CFGS):
            steps = []
            ms = []
            seen = set()
            for (var, toks, exp, sp) in variants:
                if exp["k"] == "unspec":
                    continue
                text = render.render_arith(toks, cfg["dec"], cfg["tho"], sp, salt=str(gi))
                if var == "assign":
                    text = "zorp = " + text
                if text in seen:
                    continue
                seen.add(text)
                steps.append({"op": "execute", "lang": "en", "text": text})
                ms.append((var, toks, exp, sp, text))
            if not steps:
                continue
            cid = "g%d.%d" % (gi, ci)
            cases.append({"id": cid, "cfg": cfg, "steps": steps})
            meta[cid] = (c, cfg, ms)
    obs = run_harness_stable_day(cases, "c02.gen", jobs=8)
    for case, o in zip(cases, obs):
        c, cfg, ms = meta[case["id"]]
        steps = o.get("steps") or [o] * len(ms)
        for (var, toks, exp, sp, text), st in zip(ms, steps):
            feat = render.arith_features(toks)
            feat.update({"spacing": sp, "variant": var, "dec": cfg["dec"], "tho": cfg["tho"]})
            nontrivial = any(t["k"] == "op" for t in toks)
            rep.case([text, cfg["dec"], cfg["tho"]], nontrivial)
            rep.replayed += 1
            slot = None
            ss = proj.slots_of_step(st)
            if ss is not None and ss[0] and len(ss[1]) == 1:
                slot = ss[1][0]
            got = None
            try:
                got = float(slot["f"]) if slot is not None and slot["k"] == "num" else None
            except Exception:
                got = None
            f64v = eval_tree_f64(c["tree"])
            if exp["k"] == "f64tree":
                expf = Fraction(f64v)
                okv = close_f64(f64v, got)
            else:
                expf = q_to_fraction(exp["q"])
                # two oracles: the exact rational value (1e-9) and the double-precision evaluation of the tree (1e-12) when the
                # spelling is the tree's own (minimal / full parentheses); adjacency and assignment spellings use the rational only
                okv = got is not None and close(expf, got) and (var not in ("min", "full") or close_f64(f64v, got, 1e-11) or abs(f64v) < 1e-9)
            if len(rep.samples) < 4 and nontrivial and var != "min":
                rep.sample({"text": text, "cfg": [cfg["dec"], cfg["tho"]], "expected": exp, "observed": slot})
            if not okv:
                kind = classify(slot, st)
                rep.violation({"check": "replay", "form": "arith", "text": text, "cfg": cfg, "toks": toks,
                               "expected": exp, "expected_decimal": float(expf), "observed": slot if slot else st,
                               "feat": dict(feat, failure=kind), "class": feat_class(kind, feat)})
    # ---- T: random deep trees, trace validated by TLC ------------------------------------------------
    n = 4000 if quick else 60000
    random_trace(rep, n)


# ------------------------------------------------------------------------------------------------------
LITS = [Fraction(0), Fraction(1), Fraction(2), Fraction(3), Fraction(5), Fraction(7), Fraction(10), Fraction(12),
        Fraction(1, 2), Fraction(1, 4), Fraction(3, 2), Fraction(5, 2), Fraction(1, 10), Fraction(25), Fraction(100)]


def rand_tree(rng, depth):
    if depth == 0 or rng.random() < 0.25:
        fr = rng.choice(LITS)
        sfx = ""
        if rng.random() < 0.06:
            sfx = rng.choice(["k", "M"])
        return {"t": "lit", "m": [fr.numerator, fr.denominator], "sfx": sfx}
    x = rng.random()
    if x < 0.12:
        return {"t": "par", "e": rand_tree(rng, depth - 1)}
    if x < 0.22:
        return {"t": "neg", "e": rand_tree(rng, depth - 1)}
    if x < 0.26:
        return {"t": "pos", "e": rand_tree(rng, depth - 1)}
    return {"t": "bin", "op": rng.choice("+-*/"), "l": rand_tree(rng, depth - 1), "r": rand_tree(rng, depth - 1)}


def prec(o):
    return 2 if o in "*/" else 1


def unparse(e, p, right):
    """mirror of Arith!Unparse (rendering aid for the random driver; the meaning comes from TLC)"""
    if e["t"] == "lit":
        return [{"k": "num", "m": e["m"], "sfx": e["sfx"]}]
    if e["t"] == "par":
        return [{"k": "lp"}] + unparse(e["e"], 0, False) + [{"k": "rp"}]
    if e["t"] == "neg":
        return [{"k": "op", "c": "-"}] + unparse(e["e"], 3, False)
    if e["t"] == "pos":
        return [{"k": "op", "c": "+"}] + unparse(e["e"], 3, False)
    need = prec(e["op"]) < p or (right and prec(e["op"]) == p)
    inner = unparse(e["l"], prec(e["op"]), False) + [{"k": "op", "c": e["op"]}] + unparse(e["r"], prec(e["op"]), True)
    return [{"k": "lp"}] + inner + [{"k": "rp"}] if need else inner


SUF = {"": 0, "k": 3, "M": 6}


def bound_eval(e):
    """evaluate with the 32-bit mirror; raises qmirror.Overflow when TLC would overflow"""
    if e["t"] == "lit":
        return qmirror.norm(e["m"][0], e["m"][1], SUF[e["sfx"]])
    if e["t"] == "par":
        return bound_eval(e["e"])
    if e["t"] == "neg":
        return qmirror.neg(bound_eval(e["e"]))
    if e["t"] == "pos":
        return bound_eval(e["e"])
    v = qmirror.apply(e["op"], bound_eval(e["l"]), bound_eval(e["r"]))
    if abs(v[0]) > 30000 or v[1] > 30000:
        raise qmirror.Overflow()
    return v


def random_trace(rep, n):
    rng = random.Random(rep.seed * 7919 + 2)
    cases = []
    events = []
    tries = 0
    while len(cases) < n and tries < n * 20:
        tries += 1
        t = rand_tree(rng, rng.randint(2, 6))
        try:
            bound_eval(t)
        except qmirror.Overflow:
            continue
        toks = unparse(t, 0, False)
        if len(toks) > 60:
            continue
        cfg = CFGS[rng.randint(0, 1)]
        sp = rng.choice(render.SPACINGS)
        text = render.render_arith(toks, cfg["dec"], cfg["tho"], sp, salt=str(tries))
        if len(text) > 250:
            continue
        cid = "r%d" % len(cases)
        cases.append({"id": cid, "cfg": cfg, "steps": [{"op": "execute", "lang": "en", "text": text}], "want": ["raw"],
                      "_toks": toks, "_sp": sp})
    send = [{k: v for k, v in c.items() if not k.startswith("_")} for c in cases]
    obs = run_harness_stable_day(send, "c02.rand", jobs=8)
    index = []
    for c, o in zip(cases, obs):
        st = (o.get("steps") or [o])[0]
        ss = proj.slots_of_step(st)
        if ss is None:
            status, slots = True, [{"k": st.get("outcome", "panic")}]
        else:
            status, slots = ss
        events.append(reset_event(c["cfg"], o.get("day0", 0)))
        index.append(None)
        events.append({"ev": "execute", "lang": "en", "lines": [{"form": "arith", "toks": c["_toks"]}],
                       "status": status, "obs": [proj.trace_slot(s) for s in slots]})
        index.append((c, st, slots))
        rep.case([c["steps"][0]["text"], c["cfg"]["dec"]], True)
    bad = validate_trace(rep, events, "c02")
    for b in bad:
        c, st, slots = index[b["l"] - 1]
        toks = c["_toks"]
        feat = render.arith_features(toks)
        feat.update({"spacing": c["_sp"], "variant": "random", "dec": c["cfg"]["dec"], "tho": c["cfg"]["tho"]})
        slot = slots[0] if slots else None
        kind = classify(slot if slot and slot["k"] not in ("panic", "crash", "hang") else None, st)
        rep.violation({"check": "trace", "form": "arith", "text": c["steps"][0]["text"], "cfg": c["cfg"], "toks": toks,
                       "expected": b["expected"], "observed": slots, "feat": dict(feat, failure=kind),
                       "class": feat_class(kind, feat)})
    if cases:
        rep.sample({"random_trace_event": events[1], "text": cases[0]["steps"][0]["text"]})
