"""C05 Percentage phrases compute the textbook formulas for numbers and money (DESIGN 7, C05).

 S  MC_Percent: on = X + of, off = X - of, 'what %' inverts 'of', 'of what' inverts 'of', zero divisors, anchors (TLC)
 G  Gen_Percent: every phrase over 6 values x 6 percentages (negative, zero, fractional, > 100), plain and as money in 3
    (thorough: all rated) currencies; replayed in both operand orders, both spellings p% / %p and several money spellings
 T  random finite decimals; trace validated by TLC (Trace.tla)
"""
import json
import os
import random
from fractions import Fraction

import forms
import render
from vlib import OUT, ToolError, fraction_to_q, tlc, tlc_must_pass

LEVEL = "model_checking"
CFGS = [render.cfg_with(), render.cfg_with(dec=".", tho=",")]


def consts(curs):
    os.makedirs(os.path.join(OUT, "run"), exist_ok=True)
    p = os.path.join(OUT, "run", "c05.json")
    with open(p, "w") as f:
        json.dump({"curs": curs}, f)
    return p


def renderings(line, cfg, salt, every):
    f = line["form"]
    out = []
    if f == "pct_phrase":
        xs = render.operand_texts(line["x"], cfg, every, salt)
        for i, (xv, xt) in enumerate(xs):
            big = abs(render.q_fraction(line["p"])) >= 1000
            for st in ("after", "before") + (("after.grouped", "before.grouped") if big else ()):
                pt = render.pct_text(line["p"], cfg, st.split(".")[0], group=st.endswith("grouped"))
                if line["w"] in "+-":
                    out.append(("%s.%s" % (xv, st), "%s %s %s" % (xt, line["w"], pt)))
                else:
                    out.append(("%s.%s.px" % (xv, st), "%s %s %s" % (pt, line["w"], xt)))
                    out.append(("%s.%s.xp" % (xv, st), "%s %s %s" % (xt, line["w"], pt)))
    elif f == "pct_what":
        for (av, at), (bv, bt) in zip(render.operand_texts(line["a"], cfg, every, salt), render.operand_texts(line["b"], cfg, every, salt)):
            out.append((av, "%s is what %% of %s" % (at, bt)))
    elif f == "pct_total":
        for av, at in render.operand_texts(line["a"], cfg, every, salt):
            big = abs(render.q_fraction(line["p"])) >= 1000
            for st in ("after", "before") + (("after.grouped", "before.grouped") if big else ()):
                out.append(("%s.%s" % (av, st), "%s is %s of what" % (at, render.pct_text(line["p"], cfg, st.split(".")[0], group=st.endswith("grouped")))))
    return out


def feat_of(line):
    f = {"form": line["form"], "w": line.get("w", "")}
    x = line.get("x") or line.get("a")
    f["money"] = bool(x["cur"])
    return f


def cls(kind, feat):
    return "%s|%s|%s|money=%s|%s" % (kind, feat["form"], feat["w"], feat["money"], feat.get("variant", ""))


def run(rep):
    quick = rep.tier == "quick"
    render.check_pool_words()
    rated = render.rated_currencies()
    curs = [c for c in ("usd", "try", "eur") if c in rated] if quick else rated
    # money in a currency that has no entry in the rate table is money all the same (the formulas need no rate)
    unrated = render.unrated_currencies()
    pick = [c for c in ("cad", "uah") if c in unrated] or unrated[:2]
    curs = curs + (pick if quick else sorted(set(pick + unrated[::11])))
    rep.rule = ("TLC enumerates the phrases X + p%%, X - p%%, p%% of / on / off X, A is what %% of B, A is p%% of what over 6 values x 6 percentages (negative, zero, fractional, >100), "
                "plain and as money in %d currencies; a case = one phrase in one operand order, one percent spelling (p%% / %%p), one money spelling and one separator configuration; "
                "non-trivial = non-zero percentage and value. Random part: random decimals with <= 2 fraction digits, validated by TLC." % len(curs))
    rep.assumptions = ["renderer lib/render.py (money spellings from config.json currency_alias)", "projection f64 -> nearest small rational; tolerance 1e-9 on replayed cases", "TLC 1.8.0"]
    r = tlc_must_pass("MC_Percent", "MC_Percent", workers=4, timeout=600)
    rep.add_tlc("MC_Percent", r)
    g = tlc("Gen_Percent", "Gen_Percent", workers=8, timeout=1200, env={"CONSTS": consts(curs)})
    if not g.ok:
        raise ToolError("Gen_Percent failed: %s" % (g.violated or g.error))
    rep.add_tlc("Gen_Percent", g)
    gen = sorted(g.cases, key=forms.canon)
    if {c["line"]["form"] for c in gen} != {"pct_phrase", "pct_what", "pct_total"} or not {"num", "money", "pct"} <= {c["expected"]["k"] for c in gen}:
        raise ToolError("vacuous generator")
    items = []
    for gi, c in enumerate(gen):
        line = c["line"]
        cfg = CFGS[gi % 2]
        x = line.get("x") or line.get("a")
        nz = x["q"][0] != 0 and (line.get("p", [1])[0] != 0)
        for var, text in renderings(line, cfg, gi, gi % 9 == 0):
            items.append({"line": line, "text": text, "cfg": cfg, "lang": "en", "expected": c["expected"], "variant": var, "feat": feat_of(line), "class_fn": cls, "nontrivial": nz})
    forms.replay(rep, items, "c05.gen")
    random_trace(rep, curs, 3000 if quick else 200000)
    if forms.CAPTURE is None:
        # the operand of a phrase may be a name bound to the number or the amount of money (C03 says what a name denotes, this property
        # what the phrase computes): `price = 200 try` / `10% off price` is money in the same currency
        from props import c03
        import sys
        c03.phrases_through_variables(rep, 150 if quick else 1500, modules=((sys.modules[__name__], "C05"),), min_forms=2, tag="c05.via")


def rq(rng, lim=500):
    return fraction_to_q(Fraction(rng.randint(-lim * 100, lim * 100), rng.choice([1, 1, 2, 4, 5, 10, 20, 100])).limit_denominator(100))


def in_range(line):
    """mirror of the TLA+ evaluation with 32-bit range checks (bounding only, never a verdict)"""
    import qmirror as Q
    try:
        h = Q.q(100)
        if line["form"] == "pct_phrase":
            x, p = tuple(line["x"]["q"]), tuple(line["p"])
            of = Q.div(Q.mul(x, p), h)
            Q.add(x, of)
            Q.sub(x, of)
        elif line["form"] == "pct_what":
            Q.div(Q.mul(tuple(line["a"]["q"]), h), tuple(line["b"]["q"]))
        else:
            Q.div(Q.mul(tuple(line["a"]["q"]), h), tuple(line["p"]))
        return True
    except Q.Overflow:
        return False


def random_trace(rep, curs, n):
    rng = random.Random(rep.seed * 5113 + 5)
    items = []
    for i in range(n):
        cfg = CFGS[rng.randint(0, 1)]
        cur = rng.choice([""] * 2 + curs)
        x = {"q": rq(rng), "cur": cur}
        p = rq(rng, 300)
        r = rng.random()
        if r < 0.6:
            line = {"form": "pct_phrase", "w": rng.choice(["+", "-", "of", "on", "off"]), "p": p, "x": x}
        elif r < 0.8:
            line = {"form": "pct_what", "a": x, "b": {"q": rq(rng), "cur": cur}}
        else:
            line = {"form": "pct_total", "a": x, "p": p}
        if not in_range(line):
            continue
        rs = renderings(line, cfg, i, True)
        var, text = rs[rng.randrange(len(rs))]
        items.append({"line": line, "text": text, "cfg": cfg, "lang": "en", "variant": "random", "feat": feat_of(line), "class_fn": cls})
    forms.trace(rep, items, "c05.rand")
