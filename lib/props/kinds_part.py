"""The kind algebra (spec/Kinds.tla): `A op B` for every ordered pair of 19 representative values of the eight kinds.
Descriptive layer, non-gating: most cells are fixed by no property (what is `$40 * 10 eur`?); the model records what the pinned
code does and a disagreement is reported as *drift* in the evidence of C01 (`coverage.kind_algebra`), never as a violation.
The cells that a property fixes are gated by that property's own check."""
import datetime
import json

import compare
import proj
import render
from vlib import ToolError, log, q_to_fraction, run_harness_stable_day, tlc, tlc_must_pass


MONTHS = ["january", "february", "march", "april", "may", "june", "july", "august", "september", "october", "november", "december"]


def text_of(v, lang="en"):
    k = v["k"]
    if k == "num":
        return render.number_text(q_to_fraction(v["q"]))
    if k == "pct":
        return render.number_text(q_to_fraction(v["q"])) + "%"
    if k == "money":
        return "%s %s" % (render.number_text(q_to_fraction(v["q"])), v["cur"])
    if k == "unit":
        return "%s %s" % (render.number_text(q_to_fraction(v["q"])), v["u"])
    if k == "dur":
        parts = []
        d, s = v["d"], v["s"]
        words = render.duration_words(lang)
        for n, w in ((d, "day"), (s // 3600, "hour"), (s % 3600 // 60, "minute"), (s % 60, "second")):
            if n:
                parts.append("%d %s" % (n, (w + ("" if n == 1 else "s")) if lang == "en" else words[w][0]))
        return " ".join(parts)
    if k == "time":
        w = (v["sod"] + v["off"] * 60) % 86400
        return "%02d:%02d%s" % (w // 3600, w % 3600 // 60, "" if v["zone"] == "UTC" else " " + v["zone"])
    if k == "date":
        d = datetime.date(1970, 1, 1) + datetime.timedelta(days=v["day"])
        return "%d %s %d" % (d.day, MONTHS[d.month - 1] if lang == "en" else render.month_names(lang)[d.month]["long"][0], d.year)     # d/m/y next to a `/` operator would be another line
    if k == "datetime":
        d = datetime.date(1970, 1, 1) + datetime.timedelta(days=v["d"])
        if lang != "en":
            return None          # `at` is an English rule
        return "%d %s %d at %02d:%02d" % (d.day, MONTHS[d.month - 1], d.year, v["s"] // 3600, v["s"] % 3600 // 60)
    raise ToolError("kinds: no spelling for %r" % (v,))


def run(rep, quick):
    r = tlc_must_pass("MC_Kinds", "MC_Kinds", workers=2, timeout=300)
    rep.add_tlc("MC_Kinds", r)
    g = tlc("Gen_Kinds", "Gen_Kinds", workers=4, timeout=600)
    if not g.ok or len(g.cases) < 1000:
        raise ToolError("Gen_Kinds failed: %s" % (g.violated or g.error))
    rep.add_tlc("Gen_Kinds", g)
    cells = sorted(g.cases, key=lambda c: json.dumps(c, sort_keys=True))
    cfg = render.cfg_with()
    steps = []
    owner = []
    for ci, c in enumerate(cells):
        for lang in render.languages():
            a, b = text_of(c["a"], lang), text_of(c["b"], lang)
            if a is None or b is None:
                continue
            steps.append({"op": "execute", "lang": lang, "text": "%s %s %s" % (a, c["op"], b)})
            owner.append((ci, "line", lang))
            steps.append({"op": "execute", "lang": lang, "text": "zorp = %s\nblip = %s\nzorp %s blip" % (a, b, c["op"])})
            owner.append((ci, "variables", lang))
    cases = [{"id": "kinds%d" % i, "cfg": cfg, "steps": steps[i:i + 40]} for i in range(0, len(steps), 40)]
    obs = run_harness_stable_day(cases, "kinds", jobs=8)
    flat = [st for o in obs for st in (o.get("steps") or [])]
    if len(flat) != len(steps):
        raise ToolError("kinds: %d observations for %d steps" % (len(flat), len(steps)))
    drift = []
    by = {}
    agree = 0
    for si, (ci, how, lang) in enumerate(owner):
        c = cells[ci]
        for _ in (0,):
            st = flat[si]
            ss = proj.slots_of_step(st)
            slot = ss[1][-1] if ss and ss[1] else None
            if slot is not None:
                slot = dict(slot)
            ok = slot is not None and compare.match_slot(c["slot"], slot)
            by.setdefault(c["by"], [0, 0])[0 if ok else 1] += 1
            if ok:
                agree += 1
            else:
                drift.append({"text": steps[si]["text"], "lang": lang, "how": how, "cell": [c["a"]["k"], c["op"], c["b"]["k"]], "fixed_by": c["by"],
                              "model": c["slot"], "observed": slot if slot is not None else st.get("outcome")})
    for d in drift[:5]:
        log("    [kind algebra, non-gating] %s" % json.dumps(d, ensure_ascii=False)[:400])
    out = {"pairs": len(cells), "evaluations": len(owner), "languages": render.languages(), "agree": agree, "drift": len(drift),
           "by_status": {k: {"agree": v[0], "drift": v[1]} for k, v in sorted(by.items())}, "examples": drift[:5]}
    rep.extra["kind_algebra"] = out
    return out
