"""C13 Based integer literals and base conversion round-trip (DESIGN 7, C13).

 S  MC_Radix: Read(Print(n, b), b) = n in the four bases for all n < 2^12 and 2^k - 1, 2^k, 2^k + 1 (k <= 53); decimal anchors
 G  Gen_Radix: the same kind of set as literals in each base (prefix and digit case varied), in arithmetic with a decimal, converted
    to hex / octal / binary / decimal with and without a keyword, decimal sources also with fractions .25 / .75
 T  random integers below 2^53; trace validated by TLC (Trace.tla)
"""
import random
import re

import forms
import render
from vlib import ToolError, tlc, tlc_must_pass

LEVEL = "model_checking"
CFG = render.cfg_with()
TARGET_WORDS = {16: ["hex", "hexadecimal"], 8: ["octal"], 2: ["binary"], 10: ["decimal"]}
PFX = {2: "b", 8: "o", 16: "x"}


def bits_int(bits):
    return int("".join(str(b) for b in bits), 2)


def digits_in(n, base):
    return {2: "{:b}", 8: "{:o}", 16: "{:X}", 10: "{:d}"}[base].format(n)


def lit_texts(n, base, salt, every=False):
    d = digits_in(n, base)
    if base == 10:
        return [("dec", d)]
    out = [("lower_pfx", "0" + PFX[base] + d), ("upper_pfx", "0" + PFX[base].upper() + d), ("lower_digits", "0" + PFX[base] + d.lower()),
           ("padded", "0" + PFX[base] + "0" + d),
           # leading zeros up to more digits than the largest accepted integer has in that base: the value is what counts, not the width
           ("wide_padded", "0" + PFX[base] + d.rjust({2: 66, 8: 24, 16: 18}[base], "0"))]
    seen = set()
    res = []
    for v, t in out:
        if t not in seen:
            seen.add(t)
            res.append((v, t))
    return res if every else [res[salt % len(res)]]


_MONEY_RX = re.compile(r"[-+]?[0-9]+[0-9.,]*[ ]*([a-zA-Z]{2,})")


def claimed_by_money(text):
    """does the money tokenizer's pattern (amount, blanks, letter run) find a configured currency code inside a based literal
    of this text? (it runs before the number tokenizer; feature for known-finding triage only)"""
    cur = {k.lower() for k in render.config_json().get("currencies", {})}
    for lit in re.findall(r"0[xX][0-9a-fA-F]+", text):
        for m in _MONEY_RX.finditer(lit):
            if m.group(1).lower() in cur:
                return True
    return False


def feat_of(line, text=""):
    n = bits_int(line["bits"])
    f = {"form": line["form"], "base": line["base"], "wide": n >= 2 ** 31, "target": line.get("target", 0)}
    f["hex_money"] = bool(line["base"] == 16 and claimed_by_money(text))
    return f


def cls(kind, feat):
    return "%s|%s|b%s|t%s|wide=%s|hm=%s" % (kind, feat["form"], feat["base"], feat["target"], feat["wide"], feat["hex_money"])


def renderings(line, salt, every, dec=","):
    n = bits_int(line["bits"])
    f = line["form"]
    out = []
    if f == "radix_lit":
        return lit_texts(n, line["base"], salt, True)
    if f == "radix_arith":
        for v, t in lit_texts(n, line["base"], salt, every):
            out.append((v + ".plus", "%s + %d" % (t, line["add"])))
            out.append((v + ".rplus", "%d + %s" % (line["add"], t)))
        return out
    if f == "radix_conv":
        srcs = lit_texts(n, line["base"], salt, every)
        if line["base"] == 10 and line["q"]:
            srcs = [("dec.q%d" % line["q"], digits_in(n, 10) + dec + {1: "25", 3: "75"}[line["q"]])]
        words = TARGET_WORDS[line["target"]]
        for i, (v, t) in enumerate(srcs):
            for j, kw in enumerate(("to", "as", "into", "")):
                if every or (salt + i + j) % 2 == 0:
                    w = words[(salt + j) % len(words)]
                    out.append(("%s.%s" % (v, kw or "none"), "%s %s%s" % (t, (kw + " ") if kw else "", w if (salt + j) % 5 else w.upper() if False else w)))
        return out
    return out


def run(rep):
    quick = rep.tier == "quick"
    render.check_pool_words()
    rep.rule = ("TLC enumerates integers (0..40 / 0..600, 2^k - 1, 2^k, 2^k + 1 up to 2^53, digit patterns) as literals in base 2 / 8 / 16, in sums with a decimal, "
                "and converted from each of 4 source bases to each of 4 targets, decimal sources also with .25 / .75; a case = one line in one spelling (prefix and digit case, "
                "leading zero, keyword to / as / into / none, target word synonyms); non-trivial = a conversion or a value >= 2^31. Random part: integers below 2^53.")
    rep.assumptions = ["renderer lib/render.py / this module (literal spellings)", "projection: exact integer f64 -> bit sequence; printed literal -> base and digits (case-normalised)",
                       "exact halves are not used as rounding inputs", "TLC 1.8.0"]
    r = tlc_must_pass("MC_Radix", "MC_Radix", workers=8, timeout=900)
    rep.add_tlc("MC_Radix", r)
    g = tlc("Gen_Radix", "Gen_Radix" if quick else "Gen_Radix_thorough", workers=8, timeout=1800, heap="8g")
    if not g.ok:
        raise ToolError("Gen_Radix failed: %s" % (g.violated or g.error))
    rep.add_tlc("Gen_Radix", g)
    gen = sorted(g.cases, key=forms.canon)
    if {c["line"]["form"] for c in gen} != {"radix_lit", "radix_arith", "radix_conv"}:
        raise ToolError("vacuous generator")
    items = []
    for gi, c in enumerate(gen):
        line = c["line"]
        n = bits_int(line["bits"])
        if list(digits_in(n, line["base"])) != c["digits"]:
            raise ToolError("renderer and specification disagree on the digits of %s in base %s" % (n, line["base"]))
        for var, text in renderings(line, gi, gi % 7 == 0):
            items.append({"line": line, "text": text, "cfg": CFG, "lang": "en", "expected": c["expected"], "variant": var, "feat": feat_of(line, text), "class_fn": cls,
                          "radix": True, "nontrivial": line["form"] == "radix_conv" or n >= 2 ** 31})
    forms.replay(rep, items, "c13.gen")
    random_trace(rep, 3000 if quick else 200000)


def random_trace(rep, n):
    rng = random.Random(rep.seed * 2221 + 13)
    items = []
    for i in range(n):
        k = rng.choice([rng.randint(1, 12), rng.randint(1, 53), rng.randint(28, 53)])
        v = rng.randrange(0, 2 ** k)
        bits = [int(c) for c in bin(v)[2:]]
        x = rng.random()
        if x < 0.2:
            line = {"form": "radix_lit", "base": rng.choice([2, 8, 16]), "bits": bits}
        elif x < 0.35:
            line = {"form": "radix_arith", "base": rng.choice([2, 8, 16]), "bits": bits, "add": rng.randint(0, 3)}
        else:
            base = rng.choice([2, 8, 10, 16])
            q = rng.choice([0, 0, 1, 3]) if base == 10 and v < 2 ** 40 else 0
            line = {"form": "radix_conv", "base": base, "bits": bits, "q": q, "target": rng.choice([2, 8, 10, 16])}
        rs = renderings(line, i, True)
        var, text = rs[rng.randrange(len(rs))]
        items.append({"line": line, "text": text, "cfg": CFG, "lang": "en", "variant": "random", "feat": feat_of(line, text), "class_fn": cls, "radix": True})
    forms.trace(rep, items, "c13.rand")
