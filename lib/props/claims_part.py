"""The tokenizers' claim discipline (spec/Claims.tla, spec/ClaimsTrace.tla; DESIGN 14.11).  Implementation-shaped and non-gating:
TLC shows on the model that the guard of Tokinizer::add_token_location is not the disjointness test (a span that strictly contains a
granted one is granted), that it differs from it in nothing else, and that the full overlap test would keep the granted spans
disjoint; the claims recorded from real lines (cfg(smartcalc_verif) hook) are validated against the model - every decision must be
the guard's - and every line on which a granted span contains another one is reported.  Results go into the evidence of C17."""
import json
import os
import random

import render
from vlib import OUT, ToolError, log, run_harness_stable_day, tlc, tlc_must_pass


def model_check(rep):
    r = tlc("Claims", "MC_Claims", workers=4, timeout=600, want_cases=False)
    rep.add_tlc("MC_Claims(code guard, Disjoint)", r)
    if r.violated != "Disjoint":
        raise ToolError("MC_Claims: the code's guard was expected to violate Disjoint (containment), got %s" % (r.violated or r.error or "no violation"))
    r = tlc_must_pass("Claims", "MC_Claims_code", workers=4, timeout=600, want_cases=False)
    rep.add_tlc("MC_Claims(code guard, OnlyContainment)", r)
    r = tlc_must_pass("Claims", "MC_Claims_full", workers=4, timeout=600, want_cases=False)
    rep.add_tlc("MC_Claims(overlap test)", r)
    return {"code_guard_violates": "Disjoint, by {<<1, 2>>, <<0, 3>>}: a span that strictly contains a granted one is granted",
            "code_guard_keeps": ["OnlyContainment", "GuardsDifferOnlyOnContainment"], "overlap_test_keeps": ["Disjoint"]}


def conformance(rep, quick):
    from props import pipeline_part
    rng = random.Random(rep.seed * 2221 + 17)
    texts = []
    for lang in render.languages():
        texts += [(t, lang) for t in pipeline_part.lines_pool(rep, rng, 60 if quick else 1200, lang)]
    cfg = render.cfg_with()
    cases = []
    for i in range(0, len(texts), 40):
        chunk = texts[i:i + 40]
        cases.append({"id": "cl%d" % i, "cfg": cfg, "want": ["rules"], "steps": [{"op": "execute", "lang": lang, "text": t} for t, lang in chunk]})
    obs = run_harness_stable_day(cases, "claims", jobs=8)
    path = os.path.join(OUT, "run", "claims.trace.ndjson")
    index = []
    nclaims = refused = 0
    with open(path, "w", encoding="utf-8") as f:
        for case, o in zip(cases, obs):
            for st, step in zip(o.get("steps") or [], case["steps"]):
                # one record per tokenizer run (`scan`): the line itself, and every step code that a conversion evaluates on the way
                cur, n, first = None, 0, True
                for e in (st.get("rules") or []) + [{"e": "scan", "n": 0}]:
                    if e["e"] == "scan":
                        if cur:
                            f.write(json.dumps({"n": n, "claims": cur}) + "\n")
                            index.append(step["text"] if first else "(a step code evaluated for) " + step["text"])
                            nclaims += len(cur)
                            refused += sum(1 for c in cur if c[2] == "false")
                            first = False
                        cur, n = [], e["n"]
                    elif e["e"] == "claim" and cur is not None:
                        cur.append([e["s"], e["t"], "true" if e["ok"] else "false"])
    if not index:
        raise ToolError("the claim hook recorded nothing: is the harness built with --cfg smartcalc_verif against a tree that has the hook?")
    r = tlc("ClaimsTrace", "ClaimsTrace", workers=1, timeout=1800, env={"TRACE": path}, heap="4g", want_cases=False)
    rep.add_tlc("ClaimsTrace", r)
    if r.error or r.violated:
        raise ToolError("ClaimsTrace did not consume the recorded claims: %s" % (r.violated or r.error))
    wrong = [{"line": index[b["l"] - 1], "claims": b["wrong"]} for b in r.bad]
    inside = [{"line": index[b["l"] - 1], "claims": b["containing"]} for b in r.info]
    for b in wrong[:5]:
        log("    [claims, non-gating] decision differs from the guard: %s" % json.dumps(b, ensure_ascii=False))
    for b in inside[:5]:
        log("    [claims, non-gating] a granted span contains a granted span: %s" % json.dumps(b, ensure_ascii=False))
    return {"lines_validated": len(index), "claims": nclaims, "refused": refused, "decisions_differing_from_the_guard": len(wrong),
            "lines_with_a_granted_span_inside_another": len(inside), "examples": (wrong + inside)[:6]}


def run(rep, quick):
    out = model_check(rep)
    out.update(conformance(rep, quick))
    rep.extra["claims"] = out
    return out
