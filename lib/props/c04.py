"""C04 Evaluation never changes the calculator; sessions isolate and persist correctly (DESIGN 7, C04).

 S  MC_SmartCalc: EvalFramesCalc, ExecuteIsPrivate, SessionIsolation, HistoryIndependent, LoopIsRunLines (TLC, exhaustive)
 G  Gen_Session: TLC enumerates every history of 4 (thorough 5) calls over execute / set_text / execute_session on two
    sessions and five texts, with the expected observation of every call; replayed on long-lived calculators
 T  random histories of 200 calls over three sessions; the trace is validated by TLC (Trace.tla)
"""
import random

import compare
import proj
import render
from props import c03
from tracev import reset_event, validate_trace
from vlib import ToolError, run_harness_stable_day, tlc

LEVEL = "model_checking"
CFG = render.cfg_with()


def run(rep):
    quick = rep.tier == "quick"
    render.check_pool_words()
    rep.rule = ("TLC enumerates all histories of exactly 4 (thorough 5) calls over execute(t) / set_text(s,t) / execute_session(s), 2 sessions, "
                "5 texts; a case = one history replayed on a calculator that has already served other histories; non-trivial = the history "
                "contains at least one execute_session whose expected slots depend on an earlier call of the same session. Random part: "
                "histories of 200 calls on 3 sessions, validated by TLC.")
    rep.assumptions = ["renderer lib/render.py", "projection lib/proj.py", "execute_session is only specified after a set_text on that session",
                       "the harness re-uses one calculator per worker process across histories (so cross-history leaks are visible, "
                       "possibly attributed to a later history)"]
    c03.mc_system(rep, quick)
    g = tlc("Gen_Session", "Gen_Session" if quick else "Gen_Session_thorough", workers=8, timeout=2400, heap="8g")
    if not g.ok:
        raise ToolError("Gen_Session failed: %s" % (g.violated or g.error))
    rep.add_tlc("Gen_Session", g)
    texts_abs = g.info[0]["texts"]
    # variable names are case-insensitive: every text exists in three letter-case renderings; in two histories out of three the calls
    # rotate through them, in the third every call uses the same rendering (the very same string set twice is a history of its own)
    texts3 = [[[render.render_line(l, CFG, case, salt="%d.%d" % (ti, i)) for i, l in enumerate(t)] for ti, t in enumerate(texts_abs)] for case in ("lower", "title", "upper")]
    texts = texts3[0]
    gen = sorted(g.cases, key=lambda c: repr(c["hist"]))
    if len(gen) > 200000:
        gen = random.Random(rep.seed).sample(gen, 200000)
    calls_seen = set()
    cases = []
    for gi, c in enumerate(gen):
        steps = []
        for s in ("s1", "s2"):
            steps.append({"op": "session_new", "s": s})
            steps.append({"op": "set_language", "s": s, "lang": "en"})
        for h in c["hist"]:
            calls_seen.add(h["call"])
            if h["call"] == "execute":
                steps.append({"op": "execute", "lang": "en", "text": ("\r\n" if gi % 4 == 0 else "\n").join(texts3[(gi + (len(steps) if gi % 3 else 0)) % 3][h["t"] - 1])})
            elif h["call"] == "set_text":
                steps.append({"op": "set_text", "s": h["s"], "text": "\n".join(texts3[(gi + (len(steps) if gi % 3 else 0)) % 3][h["t"] - 1])})
            else:
                steps.append({"op": "execute_session", "s": h["s"]})
        cases.append({"id": "h%d" % gi, "cfg": CFG, "steps": steps})
    if calls_seen != {"execute", "set_text", "execute_session"}:
        raise ToolError("vacuous generator: calls seen %s" % calls_seen)
    obs = run_harness_stable_day(cases, "c04.gen", jobs=8)
    for c, case, o in zip(gen, cases, obs):
        steps = o.get("steps")
        dependent = False
        seen_sess = set()
        for h in c["hist"]:
            if h["call"] == "execute_session":
                if h["s"] in seen_sess:
                    dependent = True
                seen_sess.add(h["s"])
        rep.case(c["hist"], dependent)
        rep.replayed += 1
        if len(rep.samples) < 3 and dependent:
            rep.sample({"history": c["hist"], "texts": texts})
        for hi, h in enumerate(c["hist"]):
            if h["call"] == "set_text":
                continue
            st = steps[4 + hi] if steps else o
            ss = proj.slots_of_step(st)
            exp = h["slots"]
            ok = ss is not None and ss[0] is True and len(ss[1]) == len(exp)
            first_bad = None
            if ok:
                for i, (e, s) in enumerate(zip(exp, ss[1])):
                    if not compare.match_slot(e, s):
                        ok = False
                        first_bad = i
                        break
                    if e["k"] == "fails" and s["k"] != "err":
                        break
            if not ok:
                kind = "status_or_count" if first_bad is None else compare.failure_kind(ss[1][first_bad], st)
                if st.get("outcome") in ("panic", "crash", "hang"):
                    kind = st["outcome"]
                rep.violation({"check": "replay", "form": "history", "history": c["hist"], "texts": texts, "call_index": hi, "cfg": CFG,
                               "expected": exp, "observed": ss if ss else st,
                               "feat": {"failure": kind, "call": h["call"], "depth": hi},
                               "class": "%s|%s|at%d" % (kind, h["call"], hi)})
                break
    random_histories(rep, 12 if quick else 300)
    independence(rep, 40 if quick else 600)


# lines of every feature, among them lines on which a built-in rule matches but refuses its operands (impossible dates, unknown
# units / currencies), lines that fail, and lines that bind variables: whatever they evaluate to, it must not depend on what the
# calculator evaluated before
POOL = ["1 + 2 * 3", "(4 - 6) / 4", "2k + 1M", "10 usd to eur", "$5 + 10%", "15% of 200", "20 is what % of 80", "20 is 10% of what", "10 + 5%",
        "12 january 2021", "32 january", "30 february 2021", "31/4/2021", "29/2/2019", "22/12/1985", "1/1/2020 + 3 days", "28/2/2020 + 1 month", "today",
        "tomorrow", "12/02/2020 to 11/04/2041", "10 days", "1 year 2 months 3 days", "90 minutes as hours", "3 weeks - 2 days", "11:30", "11:30 EST",
        "11:30 EST to CET", "7 pm PST to UTC", "10:00 + 90 minutes", "9:00 to 17:30", "1664582400 to date", "1/1/2021 as unix", "0xFF to decimal",
        "255 to hex", "0b101 + 1", "5 km to m", "1 inch to mm", "3 ft + 6 in", "1 kg to hg", "1 mm to mg", "2 gb to mb", "zorp = 5", "zorp + 1",
        "blip = 10 usd", "blip * 2", "(", "3 + (", ")", "2 hours * 3 hours", "5 km * 2 kg", "", "   ", "# only a comment", "1 + 1 # comment",
        "10 zzz", "5 foo bar", "june 31 2020", "february 30, 2021", "12 13 2021", "25:00", "10 meter to gallon", "8 / 0", "- - 3", "1.2.3%",
        "100 try in usd", "1k usd", "3,5 + 1,5", "1.000 + 1", "1/12/2020 - 2 weeks", "28 feb 2020", "15 mart 2021", "10 gün", "100 tl"]


def independence(rep, ncases):
    """C04, first sentence: the result of a text is determined by configuration, text and date - the same line gives the same
    result on a calculator that has evaluated any other lines before (the worker processes keep their calculator across cases)."""
    rng = random.Random(rep.seed * 32452843 + 44)
    base_case = [{"id": "base", "cfg": CFG, "fresh": True, "steps": [{"op": "execute", "lang": "en", "text": t}]} for t in POOL]
    for i, c in enumerate(base_case):
        c["id"] = "base%d" % i
    bobs = run_harness_stable_day(base_case, "c04.base", jobs=4)
    base = {}
    for t, o in zip(POOL, bobs):
        st = (o.get("steps") or [o])[0]
        ss = proj.slots_of_step(st)
        base[t] = ss[1] if ss and ss[0] is True else [{"k": st.get("outcome", "broken")}]
    cases = []
    for ci in range(ncases):
        texts = [rng.choice(POOL) for _ in range(60)]
        cases.append({"id": "ind%d" % ci, "cfg": CFG, "steps": [{"op": "execute", "lang": "en", "text": t} for t in texts]})
    obs = run_harness_stable_day(cases, "c04.ind", jobs=4)

    def same(a, b):
        keys = ("k", "f", "cur", "u", "out", "msg", "d", "s", "day", "sod", "off", "zone")
        return len(a) == len(b) and all(all(x.get(k) == y.get(k) for k in keys) for x, y in zip(a, b))
    events, index = [], []
    for case, o in zip(cases, obs):
        events.append(reset_event(CFG, o.get("day0", 0)))
        index.append(None)
        steps = o.get("steps") or []
        for k, stp in enumerate(case["steps"]):
            st = steps[k] if k < len(steps) else o
            ss = proj.slots_of_step(st)
            slots = ss[1] if ss and ss[0] is True else [{"k": st.get("outcome", "broken")}]
            ok = same(slots, base[stp["text"]])
            # one opaque line per text (a multi-line text would be one line here: the pool has single lines only)
            events.append({"ev": "execute", "lang": "en", "lines": [{"form": "opaque", "id": POOL.index(stp["text"])}], "status": True,
                           "obs": [{"k": slots[0].get("k", "broken") if slots else "broken", "same_as_base": ok}]})
            index.append((case, k, st, stp["text"]))
            rep.case([case["id"], k], True)
    bad = validate_trace(rep, events, "c04.ind")
    for b in bad:
        case, k, st, text = index[b["l"] - 1]
        prev = [s["text"] for s in case["steps"][max(0, k - 5):k]]
        rep.violation({"check": "trace", "form": "independence", "text": text, "after": prev, "cfg": CFG, "fresh_result": base[text], "observed": st,
                       "feat": {"failure": "differs_from_fresh", "call": "execute"}, "class": "independence|%s" % text[:30]})
    rep.sample({"independence_sequence": [s["text"] for s in cases[0]["steps"][:10]]})


def random_histories(rep, nhist):
    rng = random.Random(rep.seed * 15485863 + 4)
    cases = []
    sessions = ["s1", "s2", "s3"]
    for hi in range(nhist):
        steps = []
        evs = []
        kind = {s: {} for s in sessions}
        has_text = {s: False for s in sessions}
        for s in sessions:
            steps.append({"op": "session_new", "s": s})
            evs.append({"ev": "session_new", "s": s})
            steps.append({"op": "set_language", "s": s, "lang": "en"})
            evs.append({"ev": "set_language", "s": s, "lang": "en"})
        pending = {}
        last_text = {}
        for k in range(200):
            x = rng.random()
            s = rng.choice(sessions)
            if s in last_text and not has_text[s] and rng.random() < 0.12:
                # the very same text once more on the same session: every line is evaluated again, from the first one
                lines, texts = last_text[s]
                steps.append({"op": "set_text", "s": s, "text": "\n".join(texts)})
                evs.append({"ev": "set_text", "s": s, "lines": lines, "_texts": texts})
                has_text[s] = True
                pending[s] = kind[s]
            elif x < 0.45 or (x < 0.75 and not has_text[s]):
                # set_text with a random text of 1..4 lines; binding kinds are tracked per session
                n = rng.randint(1, 4)
                lines = []
                kd = dict(kind[s])
                for i in range(n):
                    bound_any = [nm for nm in c03.NAMES if tuple(nm) in kd]
                    bound_num = [nm for nm in c03.NAMES if kd.get(tuple(nm)) == "num"]
                    l = c03.rand_line(rng, i, bound_num, bound_any)
                    if l["form"] == "assign":
                        r = l["rhs"]
                        nm = tuple(l["name"])
                        if r["form"] == "lit":
                            kd[nm] = r["v"]["k"]
                        elif r["form"] == "use":
                            kd[nm] = kd.get(tuple(r["toks"][0]["ws"]), "?") if len(r["toks"]) == 1 else "num?"
                    lines.append(l)
                texts = [render.render_line(l, CFG, rng.choice(["lower", "title", "upper"]), salt="%d.%d.%d" % (hi, k, i)) for i, l in enumerate(lines)]
                steps.append({"op": "set_text", "s": s, "text": "\n".join(texts)})
                evs.append({"ev": "set_text", "s": s, "lines": lines, "_texts": texts})
                has_text[s] = True
                pending[s] = kd
                last_text[s] = (lines, texts)
            elif x < 0.75:
                steps.append({"op": "execute_session", "s": s})
                evs.append({"ev": "execute_session", "s": s})
                has_text[s] = False
                kind[s] = pending.get(s, kind[s])
            else:
                n = rng.randint(1, 3)
                lines = []
                kd = {}
                for i in range(n):
                    bound_any = [nm for nm in c03.NAMES if tuple(nm) in kd]
                    bound_num = [nm for nm in c03.NAMES if kd.get(tuple(nm)) == "num"]
                    l = c03.rand_line(rng, i, bound_num, bound_any)
                    if l["form"] == "assign" and l["rhs"]["form"] == "lit":
                        kd[tuple(l["name"])] = l["rhs"]["v"]["k"]
                    elif l["form"] == "assign" and l["rhs"]["form"] == "use":
                        kd[tuple(l["name"])] = "num?"
                    lines.append(l)
                texts = [render.render_line(l, CFG, "lower", salt="x%d.%d.%d" % (hi, k, i)) for i, l in enumerate(lines)]
                steps.append({"op": "execute", "lang": "en", "text": "\n".join(texts)})
                evs.append({"ev": "execute", "lang": "en", "lines": lines, "_texts": texts})
        cases.append({"id": "rh%d" % hi, "cfg": CFG, "steps": steps, "_evs": evs})
    send = [{k: v for k, v in c.items() if not k.startswith("_")} for c in cases]
    obs = run_harness_stable_day(send, "c04.rand", jobs=8)
    events = []
    index = []
    for c, o in zip(cases, obs):
        events.append(reset_event(CFG, o.get("day0", 0)))
        index.append(None)
        steps = o.get("steps") or []
        for ei, e in enumerate(c["_evs"]):
            ev = {k: v for k, v in e.items() if not k.startswith("_")}
            if e["ev"] in ("execute", "execute_session"):
                st = steps[ei] if ei < len(steps) else o
                ss = proj.slots_of_step(st)
                if ss is None:
                    status, slots = True, [{"k": st.get("outcome", "panic")}]
                else:
                    status, slots = ss
                ev["status"] = status
                ev["obs"] = [proj.trace_slot(s) for s in slots]
                index.append((c, ei, st, slots))
                rep.case([c["id"], ei], True)
            else:
                index.append(None)
            events.append(ev)
    bad = validate_trace(rep, events, "c04")
    for b in bad:
        c, ei, st, slots = index[b["l"] - 1]
        e = c["_evs"][ei]
        rep.violation({"check": "trace", "form": "history", "call": e["ev"], "history_prefix": [x.get("_texts", x["ev"] + " " + x.get("s", "")) for x in c["_evs"][max(0, ei - 6):ei + 1]],
                       "cfg": CFG, "expected": b["expected"], "observed": slots,
                       "feat": {"failure": "trace", "call": e["ev"]}, "class": "trace|%s" % e["ev"]})
    if cases:
        rep.sample({"random_history_calls": [x.get("_texts", x["ev"] + " " + x.get("s", "")) for x in cases[0]["_evs"][6:14]]})
