"""C17 Highlight (UI) tokens are well-formed character spans (DESIGN 7, C17).

 S  MC_UiSpans: the well-formedness predicate is exactly 'strictly increasing chain of non-empty disjoint spans inside the line' on all
    token lists of <= 2 tokens over a 4-character line; anchors (TLC)
 G  Gen_UiSpans: TLC enumerates every sequence of 1..3 (thorough 5) lexeme classes - number, fraction, operator, parentheses, ASCII word,
    words of 2- and 3-byte letters, a 4-byte symbol, a word whose case mapping changes its byte length, an assignment - optionally
    followed by a comment; the driver picks concrete strings, knows the character span of every number, operator and comment it wrote,
    and records (line length, lexeme spans, reported tokens)
 T  the recorded lines, plus randomly composed longer ones, form a trace that TLC validates (Trace.tla 'ui' events against UiSpans.tla)
"""
import random

import render
from tracev import reset_event, validate_trace
from vlib import ToolError, run_harness_stable_day, tlc, tlc_must_pass

LEVEL = "model_checking"
CFG = render.cfg_with()
STRINGS = {
    "num": ["5", "12", "1000", "7"],
    "frac": ["2,5", "0,75", "10,125"],
    "based": ["0x1F", "0o17", "0b101", "0XAB", "0O7", "0B11", "0xff"],
    "op": ["+", "-", "*", "/"],
    "word": ["zorp", "blip", "quux", "ième", "jährig", "günlük", "march日本"],
    "mb2": ["ğü", "çöş", "ñandú", "ärger"],
    "mb3": ["日本", "€uro", "한국"],
    "sym4": ["😀", "𝛑"],
    "casey": ["İzmir", "straße", "ǅem", "İİİ", "ßßß", "sıkı", "ılık", "\u212a\u212a", "ſſ"],
    "zone": ["EST", "utc", "GMT+5:30", "ßt"],      # upper-cased, `ßt` is the zone SST: a match on a case-mapped copy is longer than the text
    "month": ["march", "ocak", "Dec"],
}
KIND = {"num": "Number", "frac": "Number", "based": "Number", "op": "Operator"}


def compose(classes, comment, rng, gap=" "):
    """-> (text, [[start, end, kind]] lexeme spans in characters)"""
    parts = []
    for ci, c in enumerate(classes):
        if c == "assign" and ci > 0:
            c = "word"            # everything left of '=' is the variable's name: an assignment only starts a line
        if c == "lp_rp":
            parts.append([("(", "Operator"), (rng.choice(STRINGS["num"]), "Number"), (")", "Operator")])
        elif c == "assign":
            parts.append([(rng.choice(STRINGS["mb2"] + STRINGS["word"]), None), ("=", None), (rng.choice(STRINGS["num"]), "Number")])
        else:
            parts.append([(rng.choice(STRINGS[c]), KIND.get(c))])
    text = ""
    lex = []
    first = True
    glue = gap == "glue"
    for group in parts:
        for s, kind in group:
            glued = False
            if not first:
                if glue and rng.random() < 0.6 and not text.endswith("#"):
                    glued = True           # lexemes written without a gap: what they tokenise to is not claimed, only well-formedness
                    if lex and lex[-1][1] == len(text):
                        lex.pop()
                else:
                    text += " " if glue else gap
            first = False
            start = len(text)
            text += s
            if kind and not glued:
                lex.append([start, len(text), kind])
    if comment:
        if text:
            text += " " if glue else gap
        start = len(text)
        text += "# " + rng.choice(["note", "ğü 5", "日本 + 1", "x"])
        lex.append([start, len(text), "Comment"])
    return text, lex


def run(rep):
    quick = rep.tier == "quick"
    render.check_pool_words()
    rep.rule = ("TLC enumerates every sequence of 1..3 (thorough 5) lexeme classes out of 10, with and without a trailing comment; each is rendered twice (single and double gaps) with "
                "seeded concrete strings, in en and tr; a case = one line; non-trivial = the line contains a multi-byte character. Random part: lines of 4..10 lexemes.")
    rep.assumptions = ["the renderer knows the character spans of the numbers, operators and comments it wrote (separated by blanks; '=' and words are not claimed)",
                       "expected kinds: Number, Operator, Comment as printed by the Debug form of UiTokenType", "TLC 1.8.0"]
    r = tlc_must_pass("MC_UiSpans", "MC_UiSpans", workers=4, timeout=600)
    rep.add_tlc("MC_UiSpans", r)
    g = tlc("Gen_UiSpans", "Gen_UiSpans" if quick else "Gen_UiSpans_thorough", workers=8, timeout=1200)
    if not g.ok:
        raise ToolError("Gen_UiSpans failed: %s" % (g.violated or g.error))
    rep.add_tlc("Gen_UiSpans", g)
    rng = random.Random(rep.seed * 3067 + 17)
    lines = []
    gen = sorted(g.cases, key=lambda c: repr(c))
    if len(gen) > 40000:
        gen = rng.sample(gen, 40000)
    for c in gen:
        for gap in (" ", "  ", "glue"):
            text, lex = compose(c["seq"], c["comment"], rng, gap)
            lines.append((text, lex, "en" if len(lines) % 3 else "tr"))
    classes = list(STRINGS) + ["lp_rp", "assign"]
    for i in range(1500 if quick else 150000):
        seq = [rng.choice(classes) for _ in range(rng.randint(4, 10))]
        text, lex = compose(seq, rng.random() < 0.4, rng, rng.choice([" ", " ", "   ", "glue", "glue"]))
        if len(text) <= 250:
            lines.append((text, lex, rng.choice(["en", "tr"])))
    # lines of more than 2^16 characters: offsets are character positions of the line, however long it is
    for filler, tail in (("a" * 70000, [("12", "Number"), ("+", "Operator"), ("345", "Number")]), ("ğü" * 33000, [("7", "Number"), ("*", "Operator"), ("2", "Number")]),
                         ("zorp " * 14000, [("0x1F", "Number"), ("-", "Operator"), ("3", "Number")])):
        text, lex = filler.rstrip(), []
        for w, kind in tail:
            text += " "
            lex.append([len(text), len(text) + len(w), kind])
            text += w
        lines.append((text, lex, "en"))
    cases = []
    for b in range(0, len(lines), 50):
        chunk = lines[b:b + 50]
        cases.append({"id": "ui%d" % b, "cfg": CFG, "want": ["ui"], "steps": [{"op": "execute", "lang": lang, "text": t} for t, _, lang in chunk], "_chunk": chunk})
    obs = run_harness_stable_day([{k: v for k, v in c.items() if not k.startswith("_")} for c in cases], "c17", jobs=8)
    events = [reset_event(CFG, 0)]
    index = [None]
    for case, o in zip(cases, obs):
        steps = o.get("steps") or []
        for k, (text, lex, lang) in enumerate(case["_chunk"]):
            st = steps[k] if k < len(steps) else o
            mb = any(ord(ch) > 127 for ch in text)
            rep.case([text, lang], mb)
            line = None
            if st.get("outcome") == "returned" and st["res"]["status"] and len(st["res"]["lines"]) == 1:
                line = st["res"]["lines"][0]
            if line is None:
                if st.get("outcome") == "returned" and st["res"]["status"] and st["res"]["lines"] == [None]:
                    continue          # nothing to evaluate (blank or comment-only line): no tokens are handed out
                if st.get("outcome") == "skipped":
                    continue
                rep.violation({"check": "trace", "form": "ui", "text": text, "lang": lang, "cfg": CFG, "observed": st,
                               "feat": {"form": "ui", "failure": st.get("outcome", "no_line")}, "class": "ui|no_line|%s" % st.get("outcome")})
                continue
            events.append({"ev": "ui", "n": len(text), "toks": line.get("ui", []), "lex": lex})
            index.append((text, lex, lang, line.get("ui", [])))
            if len(rep.samples) < 4 and mb and lex and len(index) % 211 == 0:
                rep.sample({"line": text, "lexemes": lex, "ui_tokens": line.get("ui", [])})
    bad = validate_trace(rep, events, "c17")
    for b in bad:
        text, lex, lang, toks = index[b["l"] - 1]
        d = b["expected"][0]["defects"]
        what = "+".join(k for k in ("out_of_line", "disorder", "missing") if d.get(k))
        first_mb = next((i for i, ch in enumerate(text) if ord(ch) > 127), -1)
        rep.violation({"check": "trace", "form": "ui", "text": text, "lang": lang, "cfg": CFG, "line_chars": len(text), "lexemes": lex, "ui_tokens": toks, "defects": d,
                       "feat": {"form": "ui", "failure": what, "multibyte": first_mb >= 0, "has_comment": "#" in text},
                       "class": "ui|%s|mb=%s|comment=%s" % (what, first_mb >= 0, "#" in text)})
    # the tokenizers' claim discipline (spec/Claims.tla): model check + validation of the recorded claims; non-gating
    from props import claims_part
    claims_part.run(rep, quick)
