"""C12 Unit conversion matches the unit definitions; linear, invertible, transitive (DESIGN 7, C12).

 S  MC_Units: inverse, transitivity, linearity over all pairs / triples of the table, kinds never mix, the quoted definitions (TLC)
 G  Gen_Units: all 1,089 ordered pairs x 3 amounts (cross-kind pairs expect a refusal), literals in every spelling, arithmetic;
    replayed under the default separators and under ('.', '') (thorough: all four configurations)
 T  random amounts, pairs and operations; trace validated by TLC (Trace.tla)
"""
import random
from fractions import Fraction

import forms
import render
from vlib import ToolError, fraction_to_q, tlc, tlc_must_pass

LEVEL = "model_checking"
SPEC_UNITS = ["mm", "cm", "dm", "m", "dam", "hm", "km", "in", "ft", "yard", "furlong", "mile", "mg", "cg", "dg", "g", "dag", "hg", "kg", "tonne",
              "oz", "lb", "st", "bit", "byte", "kb", "mb", "gb", "tb", "pb", "eb", "zb", "yb"]
KIND = {}
for _u in SPEC_UNITS[:12]:
    KIND[_u] = "length"
for _u in SPEC_UNITS[12:23]:
    KIND[_u] = "weight"
for _u in SPEC_UNITS[23:]:
    KIND[_u] = "memory"
FAMILY = {"in": "imp", "ft": "imp", "yard": "imp", "furlong": "imp", "mile": "imp", "oz": "imp", "lb": "imp", "st": "imp"}


def cfgs(quick):
    seps = [(",", "."), (".", "")] if quick else render.SEP_CONFIGS
    return [render.cfg_with(dec=d, tho=t) for d, t in seps]


def feat_of(line, cfg):
    f = {"form": line["form"], "tho": cfg["tho"]}
    x = line.get("x") or line.get("l")
    f["src"] = x["u"]
    t = line.get("target") or line.get("r", {}).get("u") or ""
    f["dst"] = t
    f["cross_kind"] = bool(t and KIND[t] != KIND[x["u"]])
    f["cross_family"] = bool(t and KIND[t] == KIND[x["u"]] and FAMILY.get(t, "met") != FAMILY.get(x["u"], "met"))
    return f


def cls(kind, feat):
    return "%s|%s|%s->%s|tho=%s" % (kind, feat["form"], feat["src"], feat["dst"], feat["tho"])


def renderings(line, cfg, salt, every):
    f = line["form"]
    out = []
    tabs = render.unit_tables()
    if f == "unit_lit":
        return render.unit_texts(line["x"], cfg, True, salt)
    if f == "unit_conv":
        names = tabs[line["target"]]["names"]
        for i, (v, t) in enumerate(render.unit_texts(line["x"], cfg, every, salt)):
            for j, kw in enumerate(("to", "in", "as", "into")):
                if not every and (salt + i + j) % 4:
                    continue
                out.append(("%s.%s" % (v, kw), "%s %s %s" % (t, kw, names[(salt + j) % len(names)])))
        return out
    if f == "unit_arith":
        ls = render.unit_texts(line["l"], cfg, every, salt)
        if line["r"]["u"]:
            rs = render.unit_texts(line["r"], cfg, every, salt + 1)
        else:
            rs = [("num", render.number_text(render.q_fraction(line["r"]["q"]), cfg["dec"], cfg["tho"]))]
        for i, (lv, lt) in enumerate(ls):
            rv, rt = rs[i % len(rs)]
            out.append(("%s.%s" % (lv, rv), "%s %s %s" % (lt, line["op"], rt)))
        return out
    return out


def run(rep):
    quick = rep.tier == "quick"
    render.check_pool_words()
    tabs = render.unit_tables()
    if sorted(tabs) != sorted(SPEC_UNITS):
        raise ToolError("config.json's unit list differs from the 33 units of the property: %s" % sorted(set(tabs) ^ set(SPEC_UNITS)))
    rep.rule = ("TLC enumerates all 1,089 ordered pairs of the 33 units x amounts {1, 5/2, 1000} (same kind: standard factor, exact or as a term over the ounce / 2^k; "
                "different kinds: refusal), literals in every parse spelling, arithmetic over 15 unit pairs and with plain numbers; a case = one line in one unit spelling, "
                "keyword (to / in / as / into) and separator configuration; non-trivial = two different units. Random part: random amounts, pairs, operations.")
    rep.assumptions = ["renderer lib/render.py (unit spellings from config.json parse / names)", "unit sizes are the standard definitions written in spec/Units.tla; "
                       "terms with the ounce (28349.5231 mg) or 2^k beyond 2^20 are evaluated in double precision at 1e-9", "TLC 1.8.0"]
    r = tlc_must_pass("MC_Units", "MC_Units", workers=8, timeout=900)
    rep.add_tlc("MC_Units", r)
    g = tlc("Gen_Units", "Gen_Units", workers=8, timeout=1200)
    if not g.ok:
        raise ToolError("Gen_Units failed: %s" % (g.violated or g.error))
    rep.add_tlc("Gen_Units", g)
    gen = sorted(g.cases, key=forms.canon)
    ks = {c["expected"]["k"] for c in gen}
    if not {"unit", "uterm", "notunits", "num"} <= ks:
        raise ToolError("vacuous generator: %s" % ks)
    items = []
    for gi, c in enumerate(gen):
        line = c["line"]
        for ci, cfg in enumerate(cfgs(quick)):
            for var, text in renderings(line, cfg, gi + ci, gi % 13 == 0):
                feat = feat_of(line, cfg)
                items.append({"line": line, "text": text, "cfg": cfg, "lang": "en", "expected": c["expected"], "variant": var, "feat": feat, "class_fn": cls,
                              "nontrivial": bool(feat["dst"]) and feat["dst"] != feat["src"]})
    forms.replay(rep, items, "c12.gen")
    random_trace(rep, quick, 3000 if quick else 200000)
    # the configuration tables as a model (spec/Config.tla): reported in the evidence, gating nothing here
    import lint
    lint.report(rep, (), "config")


_F = {"mm": 10, "cm": 100, "dm": 1000, "m": 10 ** 4, "dam": 10 ** 5, "hm": 10 ** 6, "km": 10 ** 7, "in": 254, "ft": 3048, "yard": 9144, "furlong": 2011680,
      "mile": 16093440, "mg": 1, "cg": 10, "dg": 100, "g": 1000, "dag": 10 ** 4, "hg": 10 ** 5, "kg": 10 ** 6, "tonne": 10 ** 9, "oz": 1, "lb": 16, "st": 224}
_E2 = {"bit": 0, "byte": 3, "kb": 13, "mb": 23, "gb": 33, "tb": 43, "pb": 53, "eb": 63, "zb": 73, "yb": 83}


def in_range(line):
    """32-bit mirror of Units!ConvertUnitQ / UnitArith (bounding of random cases only, never a verdict)"""
    import qmirror as Q

    def conv(q, a, b):
        fa, fb = Q.q(_F.get(a, 1)), Q.q(_F.get(b, 1))
        r = Q.div(Q.mul(tuple(q), fa), fb)
        oz = (a in ("oz", "lb", "st")) - (b in ("oz", "lb", "st"))
        e2 = _E2.get(a, 0) - _E2.get(b, 0)
        if oz == 0 and -20 <= e2 <= 20:
            p = Q.q(1)
            for _ in range(abs(e2)):
                p = Q.mul(Q.q(2), p) if e2 > 0 else Q.div(p, Q.q(2))
            return Q.mul(r, p)
        return None
    res = None
    try:
        if line["form"] == "unit_conv":
            if KIND[line["x"]["u"]] == KIND[line["target"]]:
                res = conv(line["x"]["q"], line["x"]["u"], line["target"])
        elif line["form"] == "unit_arith":
            l, r = line["l"], line["r"]
            if r["u"]:
                c = conv(r["q"], r["u"], l["u"])
                if c is not None:
                    res = Q.apply(line["op"], tuple(l["q"]), c)
            else:
                res = Q.apply(line["op"], tuple(l["q"]), tuple(r["q"]))
    except Q.Overflow:
        return False
    # the nearest-small-rational projection of the observed f64 is only unambiguous for small denominators
    return res is None or res[1] <= 10 ** 5


def random_trace(rep, quick, n):
    rng = random.Random(rep.seed * 3571 + 12)
    items = []
    cs = cfgs(quick)
    for i in range(n):
        cfg = rng.choice(cs)
        a = rng.choice(SPEC_UNITS)
        same = [u for u in SPEC_UNITS if KIND[u] == KIND[a]]
        amt = fraction_to_q(Fraction(rng.randint(1, 400), rng.choice([1, 1, 2, 4])))
        x = rng.random()
        if x < 0.1:
            line = {"form": "unit_lit", "x": {"q": amt, "u": a}}
        elif x < 0.65:
            line = {"form": "unit_conv", "x": {"q": amt, "u": a}, "target": rng.choice(same if rng.random() < 0.8 else SPEC_UNITS)}
        elif x < 0.9:
            # keep the operands close in size so that the exact sum stays inside TLC's integers
            idx = same.index(a)
            b = same[max(0, min(len(same) - 1, idx + rng.randint(-2, 2)))] if KIND[a] != "length" or FAMILY.get(a) else rng.choice([u for u in same if not FAMILY.get(u)][max(0, idx - 2):idx + 3] or [a])
            if FAMILY.get(a, "met") != FAMILY.get(b, "met"):
                b = a
            line = {"form": "unit_arith", "l": {"q": amt, "u": a}, "op": rng.choice("+-/"), "r": {"q": fraction_to_q(Fraction(rng.randint(1, 50), rng.choice([1, 2]))), "u": b}}
        else:
            line = {"form": "unit_arith", "l": {"q": amt, "u": a}, "op": rng.choice("*/"), "r": {"q": fraction_to_q(Fraction(rng.randint(-9, 9), rng.choice([1, 2]))), "u": ""}}
        if not in_range(line):
            continue
        rs = renderings(line, cfg, i, True)
        var, text = rs[rng.randrange(len(rs))]
        items.append({"line": line, "text": text, "cfg": cfg, "lang": "en", "variant": "random", "feat": feat_of(line, cfg), "class_fn": cls})
    forms.trace(rep, items, "c12.rand")
