"""C10 Durations: unit lengths, additivity, greedy printing and 'as' flooring (DESIGN 7, C10).

 S  MC_Duration: greedy parts sum to the magnitude, stay below the next unit, 'as' floors, unit identities (TLC)
 G  Gen_Duration: TLC enumerates written durations of 1..7 parts over boundary counts, sums / differences and 'as'
    conversions with the expected value and printed parts; replayed in every unit spelling of every language
 T  random part sequences with counts to 10^6; trace validated by TLC (Trace.tla)
"""
import random

import forms
import render
from vlib import ToolError, tlc, tlc_must_pass

LEVEL = "model_checking"
CFG = render.cfg_with()


def has_big(parts):
    return any(p["n"] >= 1000 for p in parts)


def line_feat(line):
    f = {"form": line["form"]}
    ps = line.get("parts") or (line.get("a", []) + line.get("b", []))
    f["units"] = "".join(sorted({p["u"][0] + p["u"][1] for p in ps}))
    f["nparts"] = len(ps)
    if line["form"] == "dur_as":
        f["target"] = line["target"]
    if line["form"] == "dur_arith":
        f["op"] = line["op"]
    return f


def cls(kind, feat):
    return "%s|%s|%s|np=%s|%s%s" % (kind, feat["form"], feat["lang"], min(feat["nparts"], 3), feat.get("target", ""), feat.get("op", ""))


def renderings(line, lang, quick, salt):
    """(variant, text) list for one abstract line in one language"""
    out = []
    nw = max(len(v) for v in render.duration_words(lang).values())
    conv = render.conversion_words(lang)
    f = line["form"]
    if f == "dur_lit":
        for w in range(nw):
            out.append(("w%d" % w, render.dur_parts_text(line["parts"], lang, w)))
        if len(line["parts"]) > 1:
            out.append(("plus", render.dur_parts_text(line["parts"], lang, salt, " + ")))
            out.append(("wide", "  " + render.dur_parts_text(line["parts"], lang, salt + 1, "   ") + " "))
    elif f == "dur_arith":
        for w in range(nw):
            out.append(("w%d" % w, render.dur_parts_text(line["a"], lang, w) + " " + line["op"] + " " + render.dur_parts_text(line["b"], lang, w + 1)))
    elif f == "dur_as":
        if not conv:
            return []
        tw = render.duration_words(lang)[line["target"]]
        for w in range(nw):
            for kw in (["as"] if "as" in conv else conv[:1]):
                out.append(("w%d.%s" % (w, kw), "%s %s %s" % (render.dur_parts_text(line["parts"], lang, w), kw, tw[(w + 1) % len(tw)])))
        # the other conversion keywords (a duration word precedes the keyword, so 'in' is not read as inch)
        others = [k for k in conv if k != "as"]
        if others:
            kw = others[salt % len(others)]
            out.append(("kw." + kw, "%s %s %s" % (render.dur_parts_text(line["parts"], lang, salt), kw, tw[salt % len(tw)])))
    return out


def run(rep):
    quick = rep.tier == "quick"
    render.check_pool_words()
    rep.rule = ("TLC enumerates abstract duration lines (1- and 2-part literals over boundary counts x all units, every subset of the seven units "
                "in descending / ascending order with four count patterns, sums and differences, 'as' to five targets); a case = one line in one "
                "language and one unit-spelling / joiner variant; non-trivial = more than one part, an operator or a conversion. Random part: "
                "1..7 parts with counts to 10^6, validated by TLC.")
    rep.assumptions = ["renderer lib/render.py (unit words from config.json constant_pair / duration_group)",
                       "projection lib/proj.py duration_parts: printed text -> parts with the language's own format table",
                       "sign of a negative duration is not printed (the statement speaks of the magnitude)", "TLC 1.8.0"]
    r = tlc_must_pass("MC_Duration", "MC_Duration" if quick else "MC_Duration_thorough", workers=8, timeout=1500)
    rep.add_tlc("MC_Duration", r)
    import apalache
    apalache.prove(rep, ['DurLemma'] if quick else ['DurLemma'])
    g = tlc("Gen_Duration", "Gen_Duration" if quick else "Gen_Duration_thorough", workers=8, timeout=1200)
    if not g.ok:
        raise ToolError("Gen_Duration failed: %s" % (g.violated or g.error))
    rep.add_tlc("Gen_Duration", g)
    gen = sorted(g.cases, key=forms.canon)
    forms_seen = {c["line"]["form"] for c in gen}
    if forms_seen != {"dur_lit", "dur_arith", "dur_as"}:
        raise ToolError("vacuous generator: forms %s" % forms_seen)
    items = []
    for gi, c in enumerate(gen):
        line = c["line"]
        for lang in render.languages():
            for var, text in renderings(line, lang, quick, gi):
                nparts = len(line.get("parts") or []) if line["form"] == "dur_lit" else 2
                items.append({"line": line, "text": text, "cfg": CFG, "lang": lang, "expected": c["expected"], "variant": var,
                              "feat": line_feat(line), "class_fn": cls, "nontrivial": nparts > 1})
    import lint
    lint.report(rep, ("constant_pair",), "dur_lit")
    forms.replay(rep, items, "c10.gen")
    if forms.CAPTURE is None:
        # durations written next to each other add - also when names hold them (Gen_Chain's dur_seq programs, shared with C03)
        from props import c03
        gc = tlc("Gen_Chain", "Gen_Chain", workers=4, timeout=600)
        seqs = [c for c in gc.cases if c["lines"][-1]["form"] == "dur_seq"] if gc.ok else []
        if len(seqs) < 30:
            raise ToolError("Gen_Chain: no dur_seq programs (%s)" % (gc.violated or gc.error))
        rep.add_tlc("Gen_Chain(dur_seq)", gc)
        c03.duration_sequences(rep, sorted(seqs, key=c03.json_key))
    random_trace(rep, 3000 if quick else 200000)


MAXN = {"second": 10 ** 6, "minute": 10 ** 6, "hour": 10 ** 6, "day": 10 ** 6, "week": 10 ** 5, "month": 10 ** 6, "year": 10 ** 5}
UNITS = ["year", "month", "week", "day", "hour", "minute", "second"]


def rand_parts(rng, maxparts=7):
    n = rng.randint(1, maxparts)
    ps = []
    for _ in range(n):
        u = rng.choice(UNITS)
        r = rng.random()
        if r < 0.5:
            c = rng.randint(0, 70)
        elif r < 0.8:
            c = rng.randint(0, 1500)
        else:
            c = rng.randint(0, MAXN[u])
        ps.append({"n": c, "u": u})
    return ps


def random_trace(rep, n):
    rng = random.Random(rep.seed * 31337 + 10)
    items = []
    langs = render.languages()
    for i in range(n):
        lang = rng.choice(langs)
        x = rng.random()
        if x < 0.5:
            line = {"form": "dur_lit", "parts": rand_parts(rng)}
        elif x < 0.75:
            line = {"form": "dur_arith", "a": rand_parts(rng, 3), "op": rng.choice("+-"), "b": rand_parts(rng, 3)}
        else:
            line = {"form": "dur_as", "parts": rand_parts(rng, 4), "target": rng.choice(["second", "minute", "hour", "day", "week"])}
        rs = renderings(line, lang, True, i)
        if not rs:
            continue
        var, text = rs[rng.randrange(len(rs))]
        items.append({"line": line, "text": text, "cfg": CFG, "lang": lang, "variant": "random", "feat": line_feat(line), "class_fn": cls})
    forms.trace(rep, items, "c10.rand")
