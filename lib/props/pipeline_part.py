"""The implementation-shaped layer (spec/Pipeline.tla): model check of the rule engine on the actual rule table and, through the
cfg(smartcalc_verif) hook of the library, validation of the engine's recorded steps against the model (spec/PipelineTrace.tla).
Non-gating (DESIGN 4.1): scheduling is not a user-visible property. Results go into the evidence of C01 as `pipeline`."""
import json
import os
import random

import forms
import pipeline
import render
from vlib import OUT, ToolError, log, run_harness_stable_day, tlc, tlc_must_pass


def model_check(rep, quick):
    rules = pipeline.write_rules("en")
    r = tlc_must_pass("MC_Pipeline", "MC_Pipeline" if not quick else "MC_Pipeline_quick", workers=8, timeout=1500, env={"RULES": rules})
    rep.add_tlc("MC_Pipeline(restart)", r)
    differ = [i["start"] for i in r.info]
    # vacuity guard: under the pinned 'round' schedule the model must exhibit the zoned-difference counterexample
    g = tlc("MC_Pipeline", "MC_Pipeline_round", workers=8, timeout=900, env={"RULES": rules})
    rep.add_tlc("MC_Pipeline(round)", g)
    if g.violated != "ZonedDifference":
        raise ToolError("the round schedule no longer violates ZonedDifference in the model (got %s): the model does not distinguish the schedules" % (g.violated or g.error))
    out = {"schedules_differ_on": len(differ), "round_schedule_counterexample": "TIME TIMEZONE to TIME TIMEZONE"}
    # the other configured languages have their own rule tables (fewer rules, other words, other pattern orders)
    for lang in [l for l in render.languages() if l != "en"]:
        r = tlc_must_pass("MC_Pipeline", "MC_Pipeline_tr" if quick else "MC_Pipeline_tr_thorough", workers=8, timeout=1500, env={"RULES": pipeline.write_rules(lang)})
        rep.add_tlc("MC_Pipeline(restart, %s)" % lang, r)
        out["schedules_differ_on_" + lang] = len(r.info)
    return out


def lines_pool(rep, rng, n, lang="en"):
    from props import c01, c04, c05, c06, c09, c10, c11, c12, c13, c14
    pool = (list(c04.POOL) + c01.test_lines()) if lang == "en" else []
    for m in (c05, c06, c09, c10, c11, c12, c13, c14):
        its = [it["text"] for it in forms.collect(m, rep) if it.get("lang", "en") == lang and it["cfg"]["dec"] == "," and it["cfg"]["tho"] == "." and not it.get("pre")]
        pool += its if len(its) <= n else rng.sample(its, n)
    return [t for t in dict.fromkeys(pool) if "\n" not in t and "=" not in t and len(t) <= 200]


def conformance(rep, quick, lang="en"):
    rng = random.Random(rep.seed * 1117 + 101)
    texts = lines_pool(rep, rng, 80 if quick else 1500, lang)
    if not texts:
        return {"lines_validated": 0}
    cfg = render.cfg_with()
    cases = [{"id": "pl%d" % i, "cfg": cfg, "want": ["rules"], "steps": [{"op": "execute", "lang": lang, "text": t} for t in texts[i:i + 40]]} for i in range(0, len(texts), 40)]
    obs = run_harness_stable_day(cases, "pipeline." + lang, jobs=8)
    path = os.path.join(OUT, "run", "pipeline.%s.trace.ndjson" % lang)
    index = []
    rewrites = refusals = 0
    with open(path, "w", encoding="utf-8") as f:
        for case, o in zip(cases, obs):
            for st, step in zip(o.get("steps") or [], case["steps"]):
                cur = None
                for e in st.get("rules") or []:
                    if e["e"] == "start":
                        cur = {"start": e["toks"], "evs": []}
                    elif e["e"] == "done":
                        if cur is not None and not any(t[0] in ("VARIABLE", "FIELD") for t in cur["start"]):
                            f.write(json.dumps(cur, ensure_ascii=False) + "\n")
                            index.append(step["text"])
                        cur = None
                    elif e["e"] in ("claim", "scan"):
                        continue          # the tokenizers' claims belong to the Claims layer (props/claims_part.py)
                    elif cur is not None:
                        cur["evs"].append({"e": e["e"], "rule": e["rule"], "toks": e.get("toks", [])})
                        rewrites += e["e"] == "apply"
                        refusals += e["e"] == "refuse"
    if not index:
        raise ToolError("the rule-engine hook recorded nothing: is the harness built with --cfg smartcalc_verif?")
    r = tlc("PipelineTrace", "PipelineTrace", workers=1, timeout=1800, env={"RULES": pipeline.write_rules(lang), "TRACE": path}, heap="4g")
    rep.add_tlc("PipelineTrace(%s)" % lang, r)
    if r.error or r.violated:
        raise ToolError("PipelineTrace did not consume the recorded log: %s" % (r.violated or r.error))
    bad = [{"line": index[b["l"] - 1], "at": b["at"], "what": b["what"]} for b in r.bad]
    for b in bad[:5]:
        log("    [pipeline, non-gating] %s" % json.dumps(b, ensure_ascii=False))
    return {"lines_validated": len(index), "rewrites": rewrites, "refusals": refusals, "disagreements": len(bad), "examples": bad[:5], "tlc_states": r.distinct}


def run(rep, quick):
    out = model_check(rep, quick)
    out.update(conformance(rep, quick))
    for lang in [l for l in render.languages() if l != "en"]:
        out[lang] = conformance(rep, quick, lang)
    rep.extra["pipeline"] = out
    return out
