"""C18 Custom rules and user-defined unit families: registration, effect, removal (DESIGN 7, C18).

 S  Gen_Registry (TLC): RegistryIsReplay (the rule list equals the replay of the surviving registrations), the return values of
    add_rule / add_dynamic_type_item, DupRejected and EvalFramesCalc on every enumerated history
 G  every history of 4 (thorough 5) calls over add_rule (4 rules sharing patterns, one for an unknown language) / delete_rule /
    evaluate, and over add_dynamic_type / add_dynamic_type_item (duplicates, other factors, unknown family) / evaluate, with the
    expected return value or result of every call; 'baseline' expectations are compared with a rule-free calculator
 T  random histories of 30..80 calls; trace validated by TLC (Trace.tla)
"""
import random

import compare
import proj
import render
from tracev import reset_event, validate_trace
from vlib import ToolError, q_to_fraction, run_harness_stable_day, tlc

LEVEL = "model_checking"
CFG = render.cfg_with()
# P4 / P5 are read per language: a word group and an operator word of Turkish (a rule's patterns are tokenised in the rule's language)
# P6 has a literal word with a capital letter: the line written exactly like the pattern matches it
PATTERNS = {"P1": "zorp {NUMBER:n}", "P2": "blip {NUMBER:n}", "P3": "{TEXT:w} quux {NUMBER:n}", "P4": "her {GROUP:p:week_group} {NUMBER:n}", "P5": "{NUMBER:n} kere kere {NUMBER:m}",
            "P6": "Snarf {NUMBER:n} Wibble",
            # P7 is two patterns that both fit the line `glorp 7 frob` at different places: the first binds w = glorp (declined by the guard),
            # the second binds w = frob (accepted) - a declined pattern must not hide the later ones
            "P7": ["{TEXT:w} {NUMBER:n}", "{NUMBER:n} {TEXT:w}"]}
TR_RULES = [{"name": "t1", "pats": ["P4"], "beh": "double"}, {"name": "t2", "pats": ["P4", "P5"], "beh": "usd"}, {"name": "n1", "pats": ["P5"], "beh": "double"}]
BEH = {"double": {"kind": "num_from", "field": "n", "mul": 2, "add": 0},
       "usd": {"kind": "money_from", "field": "n", "cur": "usd"},
       "guard100": {"kind": "guard", "field": "w", "equals": "frob", "then": {"kind": "num_from", "field": "n", "mul": 1, "add": 100}},
       "decline": {"kind": "decline"}}
RULES = [{"name": "n1", "pats": ["P1"], "beh": "double"}, {"name": "n2", "pats": ["P1", "P2"], "beh": "usd"},
         {"name": "n3", "pats": ["P3"], "beh": "guard100"}, {"name": "n4", "pats": ["P1", "P3"], "beh": "decline"}]
ITEM_NAMES = {1: "ga", 2: "bu", 3: "meu"}


def num(q):
    return render.number_text(render.q_fraction(q), CFG["dec"], CFG["tho"])


# lines that only built-in rules touch: whatever is registered or deleted through the API (also under a built-in rule's name), they
# evaluate like on a fresh calculator
BUILTIN_LINES = ["10 usd to try", "3 hours 30 minutes as minutes", "12/2/2020 + 3 days", "25% of 80"]


def line_text(line):
    if line["form"] == "opaque":
        return line["text"]
    if line["form"] == "rule_line":
        if line["pat"] == "P1":
            return "zorp " + num(line["n"])
        if line["pat"] == "P2":
            return "blip " + num(line["n"])
        if line["pat"] == "P6":
            return "Snarf %s Wibble" % num(line["n"])
        if line["pat"] == "P7":
            return "glorp %s %s" % (num(line["n"]), line["w"])
        if line["pat"] == "P4":
            return "her hafta " + num(line["n"])
        if line["pat"] == "P5":
            return num(line["n"]) + " kere kere 3"
        return "%s quux %s" % (line["w"], num(line["n"]))
    return "%s %s to %s" % (num(line["q"]), ITEM_NAMES[line["a"]], ITEM_NAMES[line["b"]])


def code(r):
    fr = q_to_fraction(r)
    return "{value} * %d / %d" % (fr.numerator, fr.denominator)


def step_of(h):
    c = h["call"]
    if c == "add_rule":
        r = RULES[h["rule"] - 1] if "rule" in h else h["r"]
        pats = []
        for p in sorted(r["pats"]):
            pats += PATTERNS[p] if isinstance(PATTERNS[p], list) else [PATTERNS[p]]
        return {"op": "add_rule", "lang": h["lang"], "name": r["name"], "patterns": pats, "behaviour": BEH[r["beh"]]}
    if c == "delete_rule":
        return {"op": "delete_rule", "lang": h["lang"], "name": h["name"]}
    if c == "set_date_rule":
        import pipeline
        return {"op": "set_date_rule", "lang": h["lang"], "patterns": pipeline.date_patterns(h["lang"])}
    if c == "add_type":
        return {"op": "add_type", "name": h["name"]}
    if c == "add_type_item":
        it = h["item"]
        nm = ITEM_NAMES[it["idx"]]
        return {"op": "add_type_item", "name": h["fam"], "index": it["idx"], "format": "{value} " + nm, "parse": ["{NUMBER:value} {TEXT:type:%s}" % nm],
                "up": code(it["up"]), "down": code(it["down"]), "names": [nm]}
    return {"op": "execute", "lang": lang_of(h["line"]), "text": line_text(h["line"])}


def lang_of(line):
    return "tr" if line.get("pat") in ("P4", "P5") else "en"


def baseline_slots(texts):
    tr = {line_text({"form": "rule_line", "pat": p, "n": n, "w": ""}) for p in ("P4", "P5") for n in ([7, 1, 0], [5, 2, 0])}
    cases = [{"id": "base", "cfg": CFG, "fresh": True, "want": ["ui"], "steps": [{"op": "execute", "lang": "tr" if t in tr else "en", "text": t} for t in texts]}]
    o = run_harness_stable_day(cases, "c18.base", jobs=1)[0]
    out = {}
    for t, st in zip(texts, o["steps"]):
        ss = slots_ui(st)
        out[t] = ss[1][0] if ss and ss[0] is True and len(ss[1]) == 1 else {"k": "broken"}
    return out


def same_slot(a, b):
    """value, printed form and the highlight tokens: a rule that declines leaves the line - all the fields of its result - as if the
    rule were absent"""
    keys = ("k", "f", "cur", "u", "out", "msg", "ui")
    return a is not None and all(a.get(k) == b.get(k) for k in keys)


def slots_ui(st):
    """proj.slots_of_step with the highlight tokens of each line attached"""
    ss = proj.slots_of_step(st)
    if ss is not None:
        raw = (st.get("res") or {}).get("lines") or []
        for i, sl in enumerate(ss[1]):
            if i < len(raw) and raw[i]:
                sl["ui"] = raw[i].get("ui")
    return ss


def run(rep):
    quick = rep.tier == "quick"
    render.check_pool_words()
    rep.rule = ("TLC enumerates every history of 4 (thorough 5) calls over 12 rule actions (add 4 rules that share patterns / accept conditionally / decline, add for an unknown "
                "language, delete by 3 names, evaluate 4 lines) and over 10 family actions (add family, add 3 items, a duplicate index with other factors, an unknown family, "
                "evaluate 4 conversions), each with expected return values and results; a case = one history on a fresh calculator; non-trivial = an evaluation after at "
                "least two registry calls. Random part: histories of 30..80 calls, validated by TLC.")
    rep.assumptions = ["rule behaviours are interpreted by harness/src/rules.rs from the behaviour record", "a 'baseline' expectation is compared with the same line on a rule-free calculator",
                       "evaluated lines contain at most one occurrence of a registered pattern", "TLC 1.8.0"]
    hists = []
    for part in ("rules", "fams"):
        g = tlc("Gen_Registry", "Gen_Registry_%s%s" % (part, "" if quick else "_thorough"), workers=8, timeout=2400, heap="8g")
        if not g.ok:
            raise ToolError("Gen_Registry(%s) failed: %s" % (part, g.violated or g.error))
        rep.add_tlc("Gen_Registry(%s)" % part, g)
        cs = sorted(g.cases, key=lambda c: repr(c["hist"]))
        # a fresh calculator per history costs ~5 ms: the quick tier replays every history of the first three calls' worth
        # of structure by sampling the depth-4 set; the thorough tier replays up to 60,000 per part
        cap = 5000 if quick else 60000
        rep.extra.setdefault("histories_enumerated", {})[part] = len(cs)
        if len(cs) > cap:
            cs = random.Random(rep.seed * 131 + len(part)).sample(cs, cap)
        hists += cs
    kinds = set()
    texts = set()
    for c in hists:
        for h in c["hist"]:
            if h["call"] == "execute":
                kinds.add(h["expected"]["k"])
                texts.add(line_text(h["line"]))
    if not {"baseline", "num", "money", "famq"} <= kinds:
        raise ToolError("vacuous generator: %s" % kinds)
    base = baseline_slots(sorted(texts | set(BUILTIN_LINES) | {line_text({"form": "rule_line", "pat": p, "n": n, "w": ""}) for p in ("P4", "P5", "P6") for n in ([7, 1, 0], [5, 2, 0])}
                                 | {"glorp 7 frob", "glorp 7 snarf"}))
    cases = [{"id": "h%d" % i, "cfg": CFG, "fresh": True, "want": ["ui"], "steps": [step_of(h) for h in c["hist"]]} for i, c in enumerate(hists)]
    obs = run_harness_stable_day(cases, "c18.gen", jobs=8)
    for c, case, o in zip(hists, cases, obs):
        steps = o.get("steps") or []
        regs = 0
        nontrivial = False
        for h in c["hist"]:
            if h["call"] == "execute":
                nontrivial = nontrivial or regs >= 2
            else:
                regs += 1
        rep.case(c["hist"], nontrivial)
        rep.replayed += 1
        if len(rep.samples) < 4 and nontrivial:
            rep.sample({"history": case["steps"], "expected": [h.get("expected", h.get("ret")) for h in c["hist"]]})
        for k, h in enumerate(c["hist"]):
            st = steps[k] if k < len(steps) else o
            if h["call"] == "execute":
                ss = slots_ui(st)
                slot = ss[1][0] if ss and ss[0] is True and len(ss[1]) == 1 else None
                if slot is not None:
                    slot["same_as_base"] = same_slot(slot, base[case["steps"][k]["text"]])
                ok = compare.match_slot(h["expected"], slot)
                what = h["line"]["form"] + ":" + h["expected"]["k"]
            else:
                ok = st.get("outcome") == "returned" and st.get("ret") == h["ret"]
                what = h["call"]
            if not ok:
                rep.violation({"check": "replay", "form": "history", "case": case, "history": c["hist"], "step": k, "observed": st,
                               "feat": {"form": "history", "what": what, "failure": compare.failure_kind(None, st)},
                               "class": "history|%s|%s|after=%s" % (what, st.get("outcome"), ",".join(x["call"] for x in c["hist"][:k])[-60:])})
                break
    random_trace(rep, base, 100 if quick else 1500)
    families_under_separators(rep)


def families_under_separators(rep):
    """a user-defined family converts along its declared chain under every separator configuration, whether it was registered
    before or after the separators were set; step codes are written in the code notation ('.' decimal point), also with
    fractional literals.  Validated by TLC (set_dec / set_tho / add_type / add_type_item / execute events)."""
    from fractions import Fraction

    def dcode(r, frac):
        fr = q_to_fraction(r)
        if frac and fr.denominator in (2, 4, 5, 10, 20, 25) and fr.numerator == 1:
            return "{value} * %s" % str(float(fr))                      # 0.25, 0.2, 0.5
        if frac and fr.denominator == 1 and fr.numerator in (4, 5):
            return "{value} / %s" % str(float(Fraction(1, fr.numerator)))   # / 0.25, / 0.2
        return code(r)
    items = [{"idx": 1, "up": [1, 4, 0], "down": [1, 1, 0]}, {"idx": 2, "up": [1, 5, 0], "down": [4, 1, 0]}, {"idx": 3, "up": [1, 1, 0], "down": [5, 1, 0]}]
    lines = [{"form": "fam_conv", "fam": "zorps", "q": q, "a": a, "b": b} for q in ([40, 1, 0], [5, 2, 0], [1234, 1, 0]) for a, b in ((1, 2), (3, 1), (1, 3), (2, 1), (2, 3))]
    cases, metas = [], []
    for (d, t) in render.SEP_CONFIGS:
        for first in ("register", "separators"):
            for frac in (False, True):
                reg = [("add_type", {"op": "add_type", "name": "zorps"}, {"ev": "add_type", "name": "zorps"})]
                for it in items:
                    nm = ITEM_NAMES[it["idx"]]
                    reg.append(("add_type_item", {"op": "add_type_item", "name": "zorps", "index": it["idx"], "format": "{value} " + nm,
                                                  "parse": ["{NUMBER:value} {TEXT:type:%s}" % nm], "up": dcode(it["up"], frac), "down": dcode(it["down"], frac), "names": [nm]},
                                {"ev": "add_type_item", "fam": "zorps", "idx": it["idx"], "up": it["up"], "down": it["down"]}))
                sep = [("set", {"op": "set_dec", "v": d}, {"ev": "set_dec", "v": d}), ("set", {"op": "set_tho", "v": t}, {"ev": "set_tho", "v": t})]
                seq = (reg + sep) if first == "register" else (sep + reg)
                for l in lines:
                    text = "%s %s to %s" % (render.number_text(render.q_fraction(l["q"]), d, t), ITEM_NAMES[l["a"]], ITEM_NAMES[l["b"]])
                    seq = seq + [("execute", {"op": "execute", "lang": "en", "text": text}, {"ev": "execute", "lang": "en", "lines": [l]})]
                cases.append({"id": "fs%d" % len(cases), "cfg": CFG, "fresh": True, "steps": [x[1] for x in seq]})
                metas.append((seq, {"dec": d, "tho": t, "first": first, "fractional_codes": frac}))
    obs = run_harness_stable_day(cases, "c18.seps", jobs=8)
    events, index = [], []
    for case, (seq, info), o in zip(cases, metas, obs):
        events.append(reset_event(CFG, o.get("day0", 0)))
        index.append(None)
        steps = o.get("steps") or []
        for k, (kind, step, ev) in enumerate(seq):
            st = steps[k] if k < len(steps) else o
            if st.get("outcome") == "skipped":
                break
            e = dict(ev)
            if kind in ("add_type", "add_type_item"):
                e["ret"] = ("true" if st.get("ret") else "false") if st.get("outcome") == "returned" else "panic"
            elif kind == "execute":
                ss = proj.slots_of_step(st)
                status, slots = (True, [{"k": st.get("outcome", "panic")}]) if ss is None else ss
                e.update({"status": status, "obs": [proj.trace_slot(x) for x in slots]})
            events.append(e)
            index.append((case, k, st, info))
            if kind == "execute":
                rep.case([case["id"], k], True)
    bad = validate_trace(rep, events, "c18.seps")
    for b in bad:
        case, k, st, info = index[b["l"] - 1]
        rep.violation({"check": "trace", "form": "history", "case": case, "step": k, "expected": b["expected"], "observed": st,
                       "feat": dict(info, form="history", what="family_under_separators", failure="wrong"),
                       "class": "family-under-separators|dec=%s|tho=%s|first=%s|fractional_codes=%s" % (info["dec"], info["tho"], info["first"], info["fractional_codes"])})


def random_trace(rep, base, nhist):
    rng = random.Random(rep.seed * 8713 + 18)
    lines = [{"form": "rule_line", "pat": "P1", "n": [7, 1, 0], "w": ""}, {"form": "rule_line", "pat": "P2", "n": [5, 2, 0], "w": ""},
             {"form": "rule_line", "pat": "P3", "n": [7, 1, 0], "w": "frob"}, {"form": "rule_line", "pat": "P3", "n": [7, 1, 0], "w": "snarf"},
             {"form": "fam_conv", "fam": "zorps", "q": [40, 1, 0], "a": 1, "b": 2}, {"form": "fam_conv", "fam": "zorps", "q": [3, 1, 0], "a": 3, "b": 1},
             {"form": "fam_conv", "fam": "zorps", "q": [40, 1, 0], "a": 1, "b": 3}, {"form": "fam_conv", "fam": "zorps", "q": [2, 1, 0], "a": 2, "b": 1}]
    lines += [{"form": "opaque", "id": i, "text": t} for i, t in enumerate(BUILTIN_LINES)]
    lines += [{"form": "rule_line", "pat": "P6", "n": [7, 1, 0], "w": ""}, {"form": "rule_line", "pat": "P6", "n": [5, 2, 0], "w": ""}]
    lines += [{"form": "rule_line", "pat": "P7", "n": [7, 1, 0], "w": "frob"}, {"form": "rule_line", "pat": "P7", "n": [7, 1, 0], "w": "snarf"}]
    lines += [{"form": "rule_line", "pat": "P4", "n": [7, 1, 0], "w": ""}, {"form": "rule_line", "pat": "P5", "n": [5, 2, 0], "w": ""}, {"form": "rule_line", "pat": "P4", "n": [5, 2, 0], "w": ""}]
    # a custom rule may carry the name of a built-in rule; deleting by a built-in rule's name deletes custom rules only
    rules = RULES + [{"name": "convert_money", "pats": ["P2"], "beh": "double"}, {"name": "n6", "pats": ["P6"], "beh": "double"}, {"name": "n2", "pats": ["P6", "P1"], "beh": "usd"},
                     {"name": "n7", "pats": ["P7"], "beh": "guard100"},
                     # names are compared as they are written: N1 is not n1
                     {"name": "N1", "pats": ["P2"], "beh": "usd"}, {"name": "N3", "pats": ["P1"], "beh": "double"}]
    items = [{"idx": 1, "up": [1, 4, 0], "down": [1, 1, 0]}, {"idx": 2, "up": [1, 5, 0], "down": [4, 1, 0]}, {"idx": 3, "up": [1, 1, 0], "down": [5, 1, 0]},
             {"idx": 2, "up": [1, 2, 0], "down": [3, 1, 0]}]
    cases, metas = [], []
    for hi in range(nhist):
        hs = []
        for _ in range(rng.randint(30, 80)):
            x = rng.random()
            if x < 0.25:
                if rng.random() < 0.25:
                    hs.append({"call": "add_rule", "lang": "tr", "r": rng.choice(TR_RULES)})
                else:
                    hs.append({"call": "add_rule", "lang": "xx" if rng.random() < 0.1 else "en", "r": rng.choice(rules)})
            elif x < 0.4:
                hs.append({"call": "delete_rule", "lang": "tr" if rng.random() < 0.25 else "en",
                           "name": rng.choice(["n1", "n2", "n3", "n4", "n9", "t1", "t2", "convert_money", "small_date", "duration_parse", "number_of", "N1", "N2", "N3", "Convert_Money"])})
            elif x < 0.43:
                hs.append({"call": "set_date_rule", "lang": rng.choice(["en", "tr"])})
            elif x < 0.47:
                hs.append({"call": "add_type", "name": "zorps"})
            elif x < 0.55:
                hs.append({"call": "add_type_item", "fam": rng.choice(["zorps", "zorps", "zorps", "blips"]), "item": rng.choice(items)})
            else:
                hs.append({"call": "execute", "line": rng.choice(lines)})
        steps = [step_of(h) for h in hs]
        case = {"id": "r%d" % hi, "cfg": CFG, "fresh": True, "want": ["ui"], "steps": steps}
        if hi % 3 == 2:
            # every third history: two calculators alive in the process, each call made on one of them - rules and families
            # registered on one are unknown to the other
            case["two"] = True
            on = 1
            for h, s_ in zip(hs, steps):
                if rng.random() < 0.3:
                    on = 3 - on
                h["calc"] = on
                if on == 2:
                    s_["calc"] = 2
        cases.append(case)
        metas.append(hs)
    obs = run_harness_stable_day(cases, "c18.rand", jobs=8)
    events, index = [], []
    for case, hs, o in zip(cases, metas, obs):
        events.append(reset_event(CFG, o.get("day0", 0), extra={"two": True} if case.get("two") else None))
        index.append(None)
        steps = o.get("steps") or []
        on = 1
        for k, h in enumerate(hs):
            st = steps[k] if k < len(steps) else o
            if st.get("outcome") == "skipped":
                break          # the calculator is gone after a panic (reported at the step that raised it)
            if st.get("outcome") == "toolerror":
                raise ToolError("c18.rand: %s" % st)
            if h.get("calc", 1) != on:
                events.append({"ev": "switch", "from": on, "to": h["calc"]})
                index.append(None)
                on = h["calc"]
            ret = ("true" if st.get("ret") else "false") if st.get("outcome") == "returned" else "panic"
            if h["call"] == "add_rule":
                e = {"ev": "add_rule", "lang": h["lang"], "name": h["r"]["name"], "pats": sorted(h["r"]["pats"]), "beh": h["r"]["beh"], "ret": ret}
            elif h["call"] == "delete_rule":
                e = {"ev": "delete_rule", "lang": h["lang"], "name": h["name"], "ret": ret}
            elif h["call"] == "add_type":
                e = {"ev": "add_type", "name": h["name"], "ret": ret}
            elif h["call"] == "set_date_rule":
                e = {"ev": "set_date_rule", "lang": h["lang"]}
            elif h["call"] == "add_type_item":
                e = {"ev": "add_type_item", "fam": h["fam"], "idx": h["item"]["idx"], "up": h["item"]["up"], "down": h["item"]["down"], "ret": ret}
            else:
                ss = slots_ui(st)
                if ss is None:
                    status, slots = True, [{"k": st.get("outcome", "panic")}]
                else:
                    status, slots = ss
                    for s in slots:
                        s["same_as_base"] = same_slot(s, base[case["steps"][k]["text"]])
                e = {"ev": "execute", "lang": lang_of(h["line"]), "lines": [h["line"]], "status": status, "obs": [proj.trace_slot(s) for s in slots]}
            events.append(e)
            index.append((case, k, st))
            rep.case([case["id"], k], True)
    bad = validate_trace(rep, events, "c18")
    for b in bad:
        case, k, st = index[b["l"] - 1]
        rep.violation({"check": "trace", "form": "history", "case": case, "step": k, "expected": b["expected"], "observed": st,
                       "feat": {"form": "history", "what": case["steps"][k]["op"], "failure": "wrong"},
                       "class": "random-history|%s|%s" % (case["steps"][k]["op"], st.get("outcome"))})
    if cases:
        rep.sample({"random_history": cases[0]["steps"][:8]})
