"""C07 Numbers print correctly rounded, grouped and signed in every format setting (DESIGN 7, C07).

 S  MC_NumFormat: the admissible outputs are well formed (exactly d fraction digits, removal iff all zero, one decimal separator,
    '-' only for negative values) and grouped exactly every third digit, on 28,672 shape x setting pairs; anchors (TLC)
 G  Gen_NumFormat: TLC enumerates decimal shapes (integer parts on the grouping boundaries x every fraction pattern over {0,4,5,9},
    both signs); each is written as a number / percentage / money / unit literal under format settings drawn from digits x removal x
    rounding x separator pairs; the double the calculator made of it (exact decimal expansion) and the printed characters are
    validated by TLC against NumFormat.tla (impl -> spec; a decimal shape is not a double, so there is no expectation before the run)
 T  random doubles with exponents -12..15, same validation
"""
import random
from decimal import Decimal

import proj
import render
from tracev import reset_event, validate_trace
from vlib import ToolError, canon, run_harness_stable_day, short_hash, tlc, tlc_must_pass

LEVEL = "model_checking"
SEPS = [(",", "."), (".", ","), (".", ""), (",", "")]
UNIT_CHOICES = ["km", "kg", "mb", "ft"]


def digits_of(s):
    return [int(c) for c in s]


def expansion(dec_str, keep=12):
    """exact decimal expansion '-12.0625' -> (neg, ip digits, first `keep` fraction digits, sticky)"""
    t = dec_str.lstrip("-")
    neg = dec_str.startswith("-") and any(c not in "0." for c in t)      # negative zero is not a negative value
    ip, _, fp = t.partition(".")
    return neg, digits_of(ip or "0"), digits_of(fp[:keep]), any(c != "0" for c in fp[keep:])


def shortest(f):
    t = format(Decimal(repr(abs(float(f)))), "f")
    ip, _, fp = t.partition(".")
    fp = fp.rstrip("0")
    return digits_of(ip or "0"), digits_of(fp)


def money_classes():
    """one rated-or-not currency per distinct (digits, symbol side, blank) class; ASCII-lettered codes only"""
    seen = {}
    for code, c in sorted(render.config_json()["currencies"].items()):
        key = (c["decimalDigits"], c["symbolOnLeft"], c["spaceBetweenAmountAndSymbol"])
        if key not in seen:
            seen[key] = code.lower()
    return seen


def settings(quick):
    digs = [0, 2, 3, 9] if quick else list(range(10))
    out = []
    for d in digs:
        for remove in (True, False):
            for rnd in (True, False):
                for dec, tho in SEPS:
                    out.append({"d": d, "remove": remove, "round": rnd, "dec": dec, "tho": tho})
    # thousands separators of several characters (not palindromes): the separator is written as it is, between the groups
    for tho in ("&nbsp;", " '"):
        out.append({"d": 2, "remove": False, "round": True, "dec": ".", "tho": tho})
        out.append({"d": 0, "remove": True, "round": True, "dec": ",", "tho": tho})
    return out


def cfg_of(st, kind="num"):
    """the setting st applies to the kind under test; the other kinds get a decoy setting that differs in every field, so that a
    value printed with another kind's setting is caught (numbers, percentages and money have separate settings)"""
    own = [st["d"], st["remove"], st["round"]]
    decoy = [(st["d"] + 3) % 10, not st["remove"], not st["round"]]
    num = own if kind in ("num",) else decoy
    pct = own if kind == "pct" else decoy
    mon = [st["remove"], st["round"]] if kind == "money" else [decoy[1], decoy[2]]
    return render.cfg_with(dec=st["dec"], tho=st["tho"], num=num, pct=pct, mon=mon)


def literal(shape, st):
    s = "-" if shape["neg"] else ""
    s += "".join(str(d) for d in shape["ip"])
    if shape["fp"]:
        s += st["dec"] + "".join(str(d) for d in shape["fp"])
    return s


def item_for(shape, st, kind, extra):
    lit = literal(shape, st)
    if kind == "num":
        text = lit
    elif kind == "pct":
        text = lit + "%"
    elif kind == "money":
        text = "%s %s" % (lit, extra)
    else:
        text = "%s %s" % (lit, extra)
    return {"text": text, "kind": kind, "extra": extra, "st": st, "shape": shape}


def run_items(rep, items, tag):
    groups = {}
    for i, it in enumerate(items):
        groups.setdefault(canon([it["st"], it["kind"]]), []).append(i)
    cases, owners = [], []
    for key, idxs in groups.items():
        for b in range(0, len(idxs), 50):
            chunk = idxs[b:b + 50]
            cases.append({"id": "%s.%d" % (tag, len(cases)), "cfg": cfg_of(items[chunk[0]]["st"], items[chunk[0]]["kind"]), "want": ["dec"],
                          "steps": [{"op": "execute", "lang": "en", "text": items[i]["text"]} for i in chunk]})
            owners.append(chunk)
    obs = run_harness_stable_day(cases, tag, jobs=8)
    cur = render.config_json()["currencies"]
    units = render.unit_tables()
    fmts = {}
    for t in render.config_json()["types"]:
        for itx in t["items"]:
            fmts[itx["names"][0]] = itx
    events, index = [], []
    last_cfg = None
    for case, chunk, o in zip(cases, owners, obs):
        steps = o.get("steps") or []
        if canon(case["cfg"]) != last_cfg:
            events.append(reset_event(case["cfg"], o.get("day0", 0)))
            index.append(None)
            last_cfg = canon(case["cfg"])
        for k, i in enumerate(chunk):
            it = items[i]
            st = steps[k] if k < len(steps) else o
            line = None
            if st.get("outcome") == "returned" and st["res"]["status"] and len(st["res"]["lines"]) == 1:
                line = st["res"]["lines"][0]
            rep.case([it["text"], it["st"]], True)
            want_kind = {"num": "num", "pct": "pct", "money": "money", "unit": "unit"}[it["kind"]]
            if not line or not line.get("ok") or line["val"]["k"] != want_kind or "dec" not in line["val"]:
                rep.violation({"check": "trace", "form": "format", "text": it["text"], "cfg": case["cfg"], "observed": line if line else st,
                               "expected": {"k": want_kind}, "feat": {"form": "format", "kind": it["kind"], "failure": "not_a_value"},
                               "class": "not_a_value|%s|%s" % (it["kind"], st.get("outcome"))})
                continue
            neg, ip, fp, sticky = expansion(line["val"]["dec"])
            sip, sfp = shortest(line["val"]["f"])
            ev = {"ev": "format", "kind": it["kind"], "v": {"neg": neg, "ip": ip, "fp": fp, "sticky": sticky, "sip": sip, "sfp": sfp},
                  "out": list(line["out"]), "deco": {}, "digits": 0}
            if len(it["st"]["tho"]) > 1:
                ev["tho_seq"] = list(it["st"]["tho"])
            if it["kind"] == "money":
                c = cur[it["extra"].upper()]
                ev["deco"] = {"sym": list(c["symbol"]), "left": c["symbolOnLeft"], "space": c["spaceBetweenAmountAndSymbol"]}
                ev["digits"] = c["decimalDigits"]
            elif it["kind"] == "unit":
                f = fmts[it["extra"]]["format"]
                pre, _, post = f.partition("{value}")
                ev["deco"] = {"pre": list(pre), "post": list(post)}
                ev["digits"] = 2
            events.append(ev)
            index.append((it, line, case["cfg"]))
    bad = validate_trace(rep, events, tag)
    for b in bad:
        it, line, cfg = index[b["l"] - 1]
        st = it["st"]
        v = line["val"]
        allowed = ["".join(a) for a in b["expected"][0]["allowed"]]
        shape = "int" if not it["shape"]["fp"] else "frac"
        rep.violation({"check": "trace", "form": "format", "text": it["text"], "cfg": cfg, "value_exact": v["dec"][:40], "printed": line["out"], "allowed": allowed,
                       "feat": {"form": "format", "kind": it["kind"], "round": st["round"], "remove": st["remove"], "d": st["d"], "tho": st["tho"], "failure": "wrong"},
                       "class": "format|%s|round=%s|remove=%s|d=%s|%s|%s" % (it["kind"], st["round"], st["remove"], st["d"], shape,
                                                                           "neg" if it["shape"]["neg"] else "pos")})
    return len(events)


def user_units(rep, shapes, quick):
    """a user-defined unit prints with the digit count and the rounding / removal switches it was registered with (the other kinds are
    given decoy settings that differ in every field)"""
    import itertools
    combos = list(itertools.product((0, 2, 3, 5), (True, False), (True, False)))
    usable = [sh for sh in shapes if len(sh["ip"]) <= 7]
    cases, metas = [], []
    for ci, (d, remove, rnd) in enumerate(combos):
        dec, tho = render.SEP_CONFIGS[ci % len(render.SEP_CONFIGS)]
        st = {"d": d, "remove": remove, "round": rnd, "dec": dec, "tho": tho}
        cfg = cfg_of(st, "unit")
        pick = [sh for i, sh in enumerate(usable) if (i + ci) % (12 if quick else 2) == 0 and (dec or not sh["fp"])]
        steps = [{"op": "add_type", "name": "zorps"},
                 {"op": "add_type_item", "name": "zorps", "index": 1, "format": "{value} ga", "parse": ["{NUMBER:value} {TEXT:type:ga}"], "up": "{value}", "down": "{value}",
                  "names": ["ga"], "digits": d, "round": rnd, "remove": remove}]
        steps += [{"op": "execute", "lang": "en", "text": literal(sh, st) + " ga"} for sh in pick]
        cases.append({"id": "uu%d" % ci, "cfg": cfg, "fresh": True, "want": ["dec"], "steps": steps})
        metas.append((st, pick))
    obs = run_harness_stable_day(cases, "c07.units", jobs=8)
    events, index = [], []
    for case, (st, pick), o in zip(cases, metas, obs):
        steps = o.get("steps") or []
        events.append(reset_event(case["cfg"], o.get("day0", 0)))
        index.append(None)
        for k, step in enumerate(case["steps"]):
            so = steps[k] if k < len(steps) else o
            if step["op"] == "add_type":
                events.append({"ev": "add_type", "name": "zorps", "ret": "true" if so.get("ret") else "false"})
                index.append(None)
                continue
            if step["op"] == "add_type_item":
                events.append({"ev": "add_type_item", "fam": "zorps", "idx": 1, "up": [1, 1, 0], "down": [1, 1, 0], "ret": "true" if so.get("ret") else "false"})
                index.append(None)
                continue
            sh = pick[k - 2]
            line = None
            if so.get("outcome") == "returned" and so["res"]["status"] and len(so["res"]["lines"]) == 1:
                line = so["res"]["lines"][0]
            rep.case([step["text"], st, "user unit"], True)
            if not line or not line.get("ok") or line["val"]["k"] != "unit" or "dec" not in line["val"]:
                rep.violation({"check": "trace", "form": "format", "text": step["text"], "cfg": case["cfg"], "observed": line if line else so, "expected": {"k": "unit"},
                               "feat": {"form": "format", "kind": "user_unit", "failure": "not_a_value"}, "class": "not_a_value|user_unit|%s" % so.get("outcome")})
                continue
            neg, ip, fp, sticky = expansion(line["val"]["dec"])
            sip, sfp = shortest(line["val"]["f"])
            events.append({"ev": "format", "kind": "unit", "v": {"neg": neg, "ip": ip, "fp": fp, "sticky": sticky, "sip": sip, "sfp": sfp}, "out": list(line["out"]),
                           "deco": {"pre": [], "post": list(" ga")}, "digits": st["d"], "uf": {"d": st["d"], "remove": st["remove"], "round": st["round"]}})
            index.append((step["text"], sh, line, st, case["cfg"]))
    bad = validate_trace(rep, events, "c07.units")
    for b in bad:
        if index[b["l"] - 1] is None:
            rep.violation({"check": "trace", "form": "format", "text": "registration of a user-defined unit", "expected": b["expected"], "feat": {"form": "format", "kind": "user_unit", "failure": "registration"},
                           "class": "user_unit|registration"})
            continue
        text, sh, line, st, cfg = index[b["l"] - 1]
        allowed = ["".join(a) for a in b["expected"][0]["allowed"]]
        rep.violation({"check": "trace", "form": "format", "text": text, "cfg": cfg, "value_exact": line["val"]["dec"][:40], "printed": line["out"], "allowed": allowed,
                       "feat": {"form": "format", "kind": "user_unit", "round": st["round"], "remove": st["remove"], "d": st["d"], "tho": st["tho"], "failure": "wrong"},
                       "class": "format|user_unit|round=%s|remove=%s|d=%s|%s" % (st["round"], st["remove"], st["d"], "int" if not sh["fp"] else "frac")})


def run(rep):
    quick = rep.tier == "quick"
    render.check_pool_words()
    rep.rule = ("TLC enumerates decimal shapes (8 integer parts on the grouping boundaries x all fraction patterns of length <= 3 (thorough 4) over {0,4,5,9} x sign); each is "
                "printed as number and, for a seeded subset, as percentage, money (one currency per (digits, side, blank) class) and unit quantity, under format settings from "
                "digits {0,2,3,9} (thorough 0..9) x removal x rounding x 4 separator pairs; a case = one value under one setting and kind; every case is non-trivial. "
                "Random part: random doubles. All printed strings are validated by TLC against NumFormat.tla.")
    rep.assumptions = ["the exact decimal expansion of the f64 comes from Rust's exact {:.N} formatting (harness/src/project.rs)", "shortest round-trip digits from Python's repr",
                       "at an exact tie both neighbours are accepted; a negative value that rounds to zero may print with or without '-'",
                       "with rounding switched off the statement gives no digit rule: all digits of the shortest representation, or none when removal is on", "TLC 1.8.0"]
    r = tlc_must_pass("MC_NumFormat", "MC_NumFormat", workers=8, timeout=900)
    rep.add_tlc("MC_NumFormat", r)
    g = tlc("Gen_NumFormat", "Gen_NumFormat" if quick else "Gen_NumFormat_thorough", workers=8, timeout=900)
    if not g.ok:
        raise ToolError("Gen_NumFormat failed: %s" % (g.violated or g.error))
    rep.add_tlc("Gen_NumFormat", g)
    shapes = sorted(g.cases, key=canon)
    sts = settings(quick)
    mclasses = money_classes()
    items = []
    per = 6 if quick else 24
    for si, sh in enumerate(shapes):
        h = int(short_hash(sh), 16)
        for j in range(per):
            st = sts[(h + j * 7919) % len(sts)]
            items.append(item_for(sh, st, "num", None))
            if j == 0:
                items.append(item_for(sh, st, "pct", None))
            if j == 1 and len(sh["ip"]) <= 7:
                codes = sorted(mclasses.values())
                items.append(item_for(sh, st, "money", codes[h % len(codes)]))
            if j == 2 and len(sh["ip"]) <= 7:
                items.append(item_for(sh, st, "unit", UNIT_CHOICES[h % len(UNIT_CHOICES)]))
    n = run_items(rep, items, "c07.gen")
    rep.sample({"text": items[0]["text"], "setting": items[0]["st"]})
    user_units(rep, shapes, quick)
    # random doubles
    rng = random.Random(rep.seed * 4409 + 7)
    ritems = []
    for i in range(4000 if quick else 200000):
        e = rng.randint(-12, 15)
        mant = rng.randint(1, 10 ** rng.randint(1, 15))
        digs = str(mant)
        if e >= 0:
            ip, fp = digs + "0" * 0, ""
            ip = digs[:max(1, len(digs) - rng.randint(0, len(digs) - 1))]
            fp = digs[len(ip):]
        else:
            ip, fp = "0", "0" * (-e - 1) + digs[:6]
        ip = ip.lstrip("0") or "0"
        if len(ip) > 16:
            ip = ip[:16]
        if i % 12 == 0:
            # magnitudes beyond 2^64 (what the suffixes Z and Y reach): 17..25 integer digits, no fraction
            ip = (ip + "0" * 25)[:rng.randint(17, 25)]
            fp = ""
        sh = {"neg": rng.random() < 0.3, "ip": digits_of(ip), "fp": digits_of(fp.rstrip("0"))}
        st = rng.choice(sts)
        kind = rng.choice(["num", "num", "num", "pct", "money", "unit"])
        extra = None
        if kind == "money":
            extra = rng.choice(sorted(mclasses.values()))
        elif kind == "unit":
            extra = rng.choice(UNIT_CHOICES)
        ritems.append(item_for(sh, st, kind, extra))
    run_items(rep, ritems, "c07.rand")
    setter_histories(rep, rng, 40 if quick else 800, sts)


def setter_histories(rep, rng, nhist, sts):
    """the format settings are state of the calculator: histories that change them through the five setters between
    evaluations; every printed value is validated against the settings the model holds at that point (Trace.tla)"""
    cases, metas = [], []
    for hi in range(nhist):
        cfg = render.cfg_with()
        two = hi % 3 == 2          # every third history: two calculators alive in the process, each with format settings of its own
        curs = {1: {"dec": cfg["dec"], "tho": cfg["tho"]}, 2: {"dec": cfg["dec"], "tho": cfg["tho"]}}
        on = 1
        steps, evs = [], []
        for k in range(30 + (15 if two else 0)):
            if two and rng.random() < 0.3:
                evs.append({"ev": "switch", "from": on, "to": 3 - on})
                on = 3 - on
            cur = curs[on]
            n0 = len(steps)
            x = rng.random()
            st = rng.choice(sts)
            if x < 0.12:
                steps.append({"op": "set_num", "d": st["d"], "remove": st["remove"], "round": st["round"]})
                evs.append({"ev": "set_num", "d": st["d"], "remove": st["remove"], "round": st["round"]})
            elif x < 0.24:
                steps.append({"op": "set_pct", "d": st["d"], "remove": st["remove"], "round": st["round"]})
                evs.append({"ev": "set_pct", "d": st["d"], "remove": st["remove"], "round": st["round"]})
            elif x < 0.34:
                steps.append({"op": "set_mon", "remove": st["remove"], "round": st["round"]})
                evs.append({"ev": "set_mon", "remove": st["remove"], "round": st["round"]})
            elif x < 0.44:
                d, t = rng.choice(SEPS)
                steps += [{"op": "set_dec", "v": d}, {"op": "set_tho", "v": t}]
                evs += [{"ev": "set_dec", "v": d}, {"ev": "set_tho", "v": t}]
                curs[on] = {"dec": d, "tho": t}
            else:
                ip = str(rng.choice([0, 7, 99, 999, 1000, 12345, 999999, 1234567]))
                fp = "".join(rng.choice("0459") for _ in range(rng.randint(0, 4)))
                sh = {"neg": rng.random() < 0.3, "ip": digits_of(ip), "fp": digits_of(fp)}
                kind = rng.choice(["num", "num", "pct", "money"])
                extra = rng.choice(["usd", "jpy", "try", "eur"]) if kind == "money" else None
                it = item_for(sh, cur, kind, extra)
                steps.append({"op": "execute", "lang": "en", "text": it["text"]})
                evs.append({"ev": "format", "_it": it})
            if on == 2:
                for s_ in steps[n0:]:
                    s_["calc"] = 2
        case = {"id": "fh%d" % hi, "cfg": cfg, "want": ["dec"], "steps": steps, "fresh": True}
        if two:
            case["two"] = True
        cases.append(case)
        metas.append(evs)
    obs = run_harness_stable_day(cases, "c07.hist", jobs=8)
    cur_tab = render.config_json()["currencies"]
    events, index = [], []
    for case, evs, o in zip(cases, metas, obs):
        events.append(reset_event(case["cfg"], 0, extra={"two": True} if case.get("two") else None))
        index.append(None)
        steps = o.get("steps") or []
        k = -1
        for e in evs:
            if e["ev"] != "switch":      # a switch is an event of the trace, not a call
                k += 1
            if e["ev"] != "format":
                events.append(e)
                index.append(None)
                continue
            it = e["_it"]
            st = steps[k] if k < len(steps) else o
            line = st["res"]["lines"][0] if st.get("outcome") == "returned" and st["res"]["status"] and len(st["res"]["lines"]) == 1 else None
            rep.case([case["id"], k], True)
            if not line or not line.get("ok") or "dec" not in line.get("val", {}):
                rep.violation({"check": "trace", "form": "format", "text": it["text"], "cfg": case["cfg"], "observed": line if line else st, "history": case["steps"][:k + 1],
                               "feat": {"form": "format", "kind": it["kind"], "failure": "not_a_value"}, "class": "history|not_a_value|%s" % it["kind"]})
                continue
            neg, ip, fp, sticky = expansion(line["val"]["dec"])
            sip, sfp = shortest(line["val"]["f"])
            ev = {"ev": "format", "kind": it["kind"], "v": {"neg": neg, "ip": ip, "fp": fp, "sticky": sticky, "sip": sip, "sfp": sfp}, "out": list(line["out"]), "deco": {}, "digits": 0}
            if it["kind"] == "money":
                c = cur_tab[it["extra"].upper()]
                ev["deco"] = {"sym": list(c["symbol"]), "left": c["symbolOnLeft"], "space": c["spaceBetweenAmountAndSymbol"]}
                ev["digits"] = c["decimalDigits"]
            events.append(ev)
            index.append((case, k, it, line))
    bad = validate_trace(rep, events, "c07.hist")
    for b in bad:
        case, k, it, line = index[b["l"] - 1]
        allowed = ["".join(a) for a in b["expected"][0]["allowed"]]
        rep.violation({"check": "trace", "form": "format", "text": it["text"], "cfg": case["cfg"], "history": case["steps"][:k + 1], "printed": line["out"], "allowed": allowed,
                       "feat": {"form": "format", "kind": it["kind"], "failure": "wrong", "history": True}, "class": "history|format|%s" % it["kind"]})
    if cases:
        rep.sample({"setter_history": cases[0]["steps"][:8]})
