"""C15 Printed results can be typed back in: formatter and reader agree (DESIGN 7, C15).

 S  MC_Duration!ReadBack (TLC): on the specification, reading printed duration parts back gives the magnitude exactly when the
    printer does not emit '12 months' (the one place where C10's printing and reading rules contradict C15);
    MC_NumFormat / MC_Radix / MC_Clock / MC_Calendar round trips (checked under their own properties)
 G  values of every kind the statement lists x separator / digit configurations x languages: the line is evaluated, its printed form is
    fed back as a new line on the same calculator, and the pair is recorded
 T  the recorded pairs form a trace that TLC validates (Trace.tla 'roundtrip' events: same kind, same printed form)
"""
import random
import time

import proj
import render
from tracev import reset_event, validate_trace
from vlib import run_harness_stable_day, tlc_must_pass

LEVEL = "model_checking"


def eligible_money():
    """currencies whose printed symbol is in the alias table and maps back to the same currency"""
    c = render.config_json()
    al = {k.lower(): v.lower() for k, v in c["currency_alias"].items()}
    out = []
    for code, info in sorted(c["currencies"].items()):
        if al.get(info["symbol"].lower()) == code.lower():
            out.append(code.lower())
    return out


def values(cfg, lang, rng):
    dec = cfg["dec"]
    n = lambda a, b="": a + (dec + b if b else "")
    vals = []
    for t in (n("0", "5"), n("1234", "5678"), "-" + n("7", "25"), "1000000", n("0", "004"), "12", n("999", "995"), "0", n("1234567", "891"), "-" + n("1000000000", "5"), "-" + n("0", "2747"), "-" + n("0", "0004"), "-" + n("0", "5"), "-" + n("0", "005"), "-" + n("0", "0005")):
        vals.append(("num", t))
    for t in (n("5", "5") + "%", "-12%", "150%", "%" + n("7", "25"), n("1000000", "5") + "%", "%" + n("1234567", "25"), "1000000000%", "-" + n("2500000", "75") + "%"):
        vals.append(("pct", t))
    for cur in eligible_money():
        for t in (n("1234", "5"), "-3", n("0", "99"), "1000000", n("1234567", "5")):
            vals.append(("money", "%s %s" % (t, cur)))
    dw = render.duration_words(lang)
    w = lambda u, i=0: dw[u][i % len(dw[u])]
    for parts in ([(1, "hour"), (30, "minute")], [(3, "day")], [(2, "week"), (1, "day")], [(1, "year"), (2, "month")], [(59, "second")], [(364, "day")], [(45, "day")],
                  [(11, "month"), (29, "day")], [(1, "second")], [(13, "month")], [(400, "day"), (25, "hour")]):
        vals.append(("dur", " ".join("%d %s" % (c, w(u, c)) for c, u in parts)))
    if lang == "en":
        for t in ("11:30", "11:30 EST", "23:59:59 CET", "0:05 GMT+5:30", "7 pm PST"):
            vals.append(("time", t))
        for t in ("0x1F", "0b101", "0o17", "255 to hex", "255 to binary"):
            vals.append(("num", t))
    else:
        for t in ("11:30", "23:59:59"):
            vals.append(("time", t))
    mn = render.month_names(lang)
    year = time.gmtime().tm_year
    for t in ("12/1/2021", "28/2/2020", "31/12/1999", "1/1/%d" % year, "5 %s" % mn[6]["long"][0], "29 %s 2024" % mn[2]["short"][0]):
        vals.append(("date", t))
    for u, tab in sorted(render.unit_tables().items()):
        vals.append(("unit", "%s %s" % (n("2", "5"), tab["lit"][0])))
        if rng.random() < 0.3:
            vals.append(("unit", "%s %s" % ("1000", tab["lit"][-1])))
    return vals


def random_values(cfg, lang, rng, n):
    """n random values of the kinds in the statement, written in the configuration's convention (thorough tier)"""
    dec = cfg["dec"]

    def num(maxint=10 ** 9, frac=True):
        ip = str(rng.randint(0, rng.choice([9, 999, 10 ** 6, maxint])))
        fp = str(rng.randint(1, 9999)).rstrip("0") if frac and dec and rng.random() < 0.6 else ""
        return ("-" if rng.random() < 0.25 else "") + ip + (dec + fp if fp else "")
    money = eligible_money()
    dw = render.duration_words(lang)
    zones = [z["name"] for z in render.usable_zones()] + [g[0] for g in render.GMT_FORMS]
    mn = render.month_names(lang)
    units = sorted(render.unit_tables().items())
    vals = []
    for _ in range(n):
        k = rng.choice(["num", "pct", "money", "dur", "time", "date", "unit", "based"])
        if k == "num":
            vals.append(("num", num()))
        elif k == "pct":
            t = num(10 ** 7)
            vals.append(("pct", t + "%" if rng.random() < 0.5 else ("-%" + t[1:] if t.startswith("-") and rng.random() < 0 else "%" + t.lstrip("-"))))
        elif k == "money":
            vals.append(("money", "%s %s" % (num(10 ** 7), rng.choice(money))))
        elif k == "dur":
            us = rng.sample(["year", "month", "week", "day", "hour", "minute", "second"], rng.randint(1, 4))
            vals.append(("dur", " ".join("%d %s" % (c, dw[u][c % len(dw[u])]) for u in us for c in [rng.randint(1, rng.choice([3, 60, 500]))])))
        elif k == "time":
            t = "%d:%02d" % (rng.randint(0, 23), rng.randint(0, 59)) + (":%02d" % rng.randint(0, 59) if rng.random() < 0.5 else "")
            vals.append(("time", t + (" " + rng.choice(zones) if lang == "en" and rng.random() < 0.7 else "")))
        elif k == "date":
            y, m, d = rng.randint(1, 9999), rng.randint(1, 12), rng.randint(1, 28)
            r = rng.random()
            vals.append(("date", "%d/%d/%d" % (d, m, y) if r < 0.4 else "%d %s %d" % (d, rng.choice(mn[m]["long"] + mn[m]["short"]), y) if r < 0.8 else
                         "%d %s" % (d, rng.choice(mn[m]["long"]))))
        elif k == "unit":
            u, tab = rng.choice(units)
            vals.append(("unit", "%s %s" % (num(10 ** 6), rng.choice(tab["lit"]))))
        elif lang == "en":
            x = rng.randint(0, rng.choice([255, 2 ** 31, 2 ** 52]))
            vals.append(("num", rng.choice(["0x%X" % x, "0b%s" % bin(x)[2:], "0o%o" % x, "%d to hex" % x, "%d to octal" % x, "%d to binary" % x])))
    return vals


def run(rep):
    quick = rep.tier == "quick"
    render.check_pool_words()
    rep.rule = ("values of every kind in the statement (numbers on rounding boundaries, percentages, money in the currencies whose printed symbol reads back, durations incl. carries, "
                "times with zones, dates incl. the current year, all 33 units, based integers) x 4 separator pairs x digits {0,2,3} x zero-fraction removal x languages; a case = one value "
                "under one configuration and language: evaluate, feed the printed form back, compare kind and printed form (TLC, Trace.tla roundtrip events). Every case is non-trivial. "
                "Thorough tier: 2,500 random values of these kinds per configuration and language in addition.")
    rep.assumptions = ["the first evaluation only supplies the printed form; nothing is assumed about its value", "money only in currencies whose printed symbol maps back to the same "
                       "currency in config.json's alias table", "date-times are not in the statement's list; a zero duration prints nothing and is skipped", "TLC 1.8.0"]
    r = tlc_must_pass("MC_Duration", "MC_Duration", workers=8, timeout=900)
    rep.add_tlc("MC_Duration(ReadBack)", r)
    rng = random.Random(rep.seed * 1543 + 15)
    cfgs = []
    for d, t in render.SEP_CONFIGS:
        for dig in (0, 2, 3):
            for rem in (True, False):
                cfgs.append(render.cfg_with(dec=d, tho=t, num=[dig, rem, True], pct=[dig, rem, True], mon=[rem, True]))
    if quick:
        cfgs = cfgs[::2]
    cases, metas = [], []
    for ci, cfg in enumerate(cfgs):
        for lang in render.languages():
            vals = values(cfg, lang, rng)
            if not quick:
                vals = vals + random_values(cfg, lang, rng, 2500)     # 24 configurations x 2 languages x 2,500 random values
            for b in range(0, len(vals), 20):
                chunk = vals[b:b + 20]
                steps = []
                for k, (kind, text) in enumerate(chunk):
                    steps.append({"op": "execute", "lang": lang, "text": text})
                    steps.append({"op": "execute", "lang": lang, "text_from": [2 * k, 0]})
                cases.append({"id": "rt%d" % len(cases), "cfg": cfg, "steps": steps})
                metas.append((cfg, lang, chunk))
    obs = run_harness_stable_day(cases, "c15", jobs=8)
    events, index = [], []
    for case, (cfg, lang, chunk), o in zip(cases, metas, obs):
        events.append(reset_event(cfg, o.get("day0", 0)))
        index.append(None)
        steps = o.get("steps") or []
        for k, (kind, text) in enumerate(chunk):
            s1 = steps[2 * k] if 2 * k < len(steps) else o
            s2 = steps[2 * k + 1] if 2 * k + 1 < len(steps) else o
            a = proj.slots_of_step(s1)
            slot1 = a[1][0] if a and a[0] is True and len(a[1]) == 1 else None
            if slot1 is None or slot1["k"] in ("err", "empty") or not slot1.get("out"):
                continue     # nothing printed: outside the statement (that the line evaluates is the other properties' subject)
            b2 = proj.slots_of_step(s2)
            slot2 = b2[1][0] if b2 and b2[0] is True and len(b2[1]) == 1 else {"k": s2.get("outcome", "broken"), "out": ""}
            rep.case([text, cfg, lang], True)
            events.append({"ev": "roundtrip", "kind": slot1["k"], "kind2": slot2["k"], "out1": slot1["out"], "out2": slot2.get("out", slot2.get("msg", ""))})
            dur_days = None
            if slot1["k"] == "dur":
                tot = abs(slot1["d"] * 86400 + slot1["s"])
                dur_days = (tot // 86400) % 365
            index.append((text, cfg, lang, slot1, slot2, dur_days))
            if len(rep.samples) < 6 and len(index) % 97 == 0:
                rep.sample({"line": text, "lang": lang, "printed": slot1["out"], "typed_back_prints": slot2.get("out")})
    bad = validate_trace(rep, events, "c15")
    for b in bad:
        text, cfg, lang, s1, s2, dur_days = index[b["l"] - 1]
        feat = {"form": "roundtrip", "kind": s1["k"], "lang": lang, "failure": "wrong", "dec": cfg["dec"], "tho": cfg["tho"],
                "twelve_months": bool(dur_days is not None and 360 <= dur_days <= 364), "zone": s1.get("zone", "")}
        rep.violation({"check": "trace", "form": "roundtrip", "text": text, "cfg": cfg, "lang": lang, "printed": s1["out"], "typed_back": s2, "feat": feat,
                       "class": "roundtrip|%s|%s|%s|12m=%s" % (s1["k"], lang, s2["k"], feat["twelve_months"])})
