"""C19 Every configured language is a relabelling of the same calculator (DESIGN 7, C19).

 S  true of the specification by construction: the language is a rendering and printing attribute (LineMeaning never reads ctx.lang
    except to select the custom rules of that language); the printed month names and unit words are checked against the language's
    own tables by the projections (date_printed, duration_parts) that feed PrintMatches in Meaning.tla
 G  the date and duration cases TLC enumerates (C09, C10 generators), rendered with every configured month name, duration word and day
    keyword of every language; arithmetic trees with the operators written as the language's operator words; the word-free forms of
    arithmetic, percentages and money under every language tag, which must also print identically
 T  random such cases, validated by TLC (Trace.tla; the language travels in the event)
"""
import random

import forms
import render
from props import c05, c06, c09, c10
from vlib import ToolError, tlc

LEVEL = "model_checking"
CFG = render.cfg_with()


def close_f(a, b):
    try:
        a, b = float(a), float(b)
    except Exception:
        return False
    return abs(a - b) <= 1e-9 * max(1.0, abs(a), abs(b))


def cls(kind, feat):
    return "%s|%s|%s|%s" % (kind, feat.get("form"), feat.get("lang"), feat.get("variant", "")[:14])


def word_arith(toks, lang, salt, case=None):
    """token list -> text with binary operators spelled as the language's operator words; None when the language has no word
    for one of them (case: "title" / "upper" spelling of the words; None when a word has no such spelling)"""
    ow = render.operator_words(lang)
    texts = render.arith_token_texts(toks, ",", ".")
    out = []
    used = False
    for i, t in enumerate(toks):
        if t["k"] == "op" and not render.is_prefix_op(toks, i):
            ws = ow.get(t["c"])
            if not ws:
                return None
            w = ws[(salt + i) % len(ws)]
            if case:
                if case == "title" and w[:1].upper() != w[:1] and len(w[:1].upper()) == 1:
                    w = w[:1].upper() + w[1:]         # also for non-ASCII initials (Çarpı): the relabelling has to carry them
                elif case == "upper" and render.word_case(w, "upper") != w:
                    w = render.word_case(w, "upper")
                else:
                    return None
            out.append(w)
            used = True
        else:
            out.append(texts[i])
    if not used:
        return None
    s = ""
    for i, x in enumerate(out):
        s += x
        if i < len(out) - 1:
            a, b = toks[i], toks[i + 1]
            if render.is_prefix_op(toks, i) or a["k"] == "lp" or b["k"] == "rp":
                continue
            s += " "
    return s


def run(rep):
    quick = rep.tier == "quick"
    per = 400 if quick else 20000
    render.check_pool_words()
    langs = render.languages()
    rep.rule = ("the date and duration cases of the C09 / C10 generators in every language with every configured month name, unit word and day keyword (printed words checked against "
                "the language's own tables); arithmetic trees of depth <= 2 with operator words of each language; word-free arithmetic, percentage and money cases under every language "
                "tag with equal values and equal printed output; quick: a seeded sample of %d per family. A case = one line in one language; non-trivial = a language other than "
                "English or a word spelling." % per)
    rep.assumptions = ["renderer lib/render.py (words from config.json)", "only concepts the language has a word for are rendered in it (Turkish has no division word and no conversion keywords)",
                       "TLC 1.8.0"]
    rng = random.Random(rep.seed * 6151 + 19)
    items = []
    for m, home in ((c09, "C09"), (c10, "C10")):
        pool = [it for it in forms.collect(m, rep, home=home) if it["expected"]["k"] != "unspec"]
        nonen = [it for it in pool if it.get("lang") != "en"]
        en = [it for it in pool if it.get("lang") == "en"]
        pick = (nonen if len(nonen) <= per else rng.sample(nonen, per)) + (en if len(en) <= per // 4 else rng.sample(en, per // 4))
        for it in pick:
            it = dict(it)
            it["class_fn"] = cls
            it["feat"] = dict(it.get("feat", {}), form=it["line"]["form"])
            it["nontrivial"] = it.get("lang") != "en"
            items.append(it)
    # operator words
    g = tlc("Gen_Arith", "Gen_Arith", workers=8, timeout=1200)
    if not g.ok:
        raise ToolError("Gen_Arith failed")
    rep.add_tlc("Gen_Arith", g)
    trees = [c for c in sorted(g.cases, key=forms.canon) if c["exp_min"]["k"] == "num"]
    seen_ops = set()
    for gi, c in enumerate(trees if len(trees) <= per * 3 else rng.sample(trees, per * 3)):
        for lang in langs:
            t = word_arith(c["min"], lang, gi)
            if t is None:
                continue
            for tk in c["min"]:
                if tk["k"] == "op":
                    seen_ops.add((lang, tk["c"]))
            items.append({"line": {"form": "arith", "toks": c["min"]}, "text": t, "cfg": CFG, "lang": lang, "expected": c["exp_min"], "variant": "opwords",
                          "feat": {"form": "arith"}, "class_fn": cls, "nontrivial": True})
    if not any(l != "en" for l, _ in seen_ops):
        raise ToolError("no operator-word case outside English")
    # operator words in another letter case: whatever English does with `5 Times 3`, every language does with its own words
    # (compared between the languages, not with an absolute expectation: the statement is the relabelling)
    case_groups = []
    for gi, c in enumerate(trees if len(trees) <= per else rng.sample(trees, per)):
        case = ("title", "upper")[gi % 2]
        texts = {lang: word_arith(c["min"], lang, gi, case) for lang in langs}
        if texts.get("en") is None or sum(t is not None for t in texts.values()) < 2:
            continue
        grp = []
        for lang in langs:
            if texts[lang] is not None:
                grp.append(len(items))
                items.append({"line": {"form": "arith", "toks": c["min"]}, "text": texts[lang], "cfg": CFG, "lang": lang, "expected": {"k": "unspec"},
                              "variant": "opwords." + case, "feat": {"form": "arith"}, "class_fn": cls, "nontrivial": lang != "en"})
        case_groups.append(grp)
    if len(case_groups) < 20:
        raise ToolError("vacuous: operator words in another letter case")
    # word-free forms under every language tag
    wordfree = []
    for c in (trees if len(trees) <= per else rng.sample(trees, per)):
        wordfree.append({"line": {"form": "arith", "toks": c["min"]}, "text": render.render_arith(c["min"], ",", ".", "single"), "cfg": CFG, "expected": c["exp_min"],
                         "feat": {"form": "arith"}})
    # the percentage phrases are written with English words in every language's rule table (of / on / off / is what % of / of what): where
    # every configured language has the rule, the phrase belongs to "percentages behave identically in every configured language"
    rules_of = {l: set(render.config_json()["languages"][l].get("rules", {})) for l in langs}
    shared = set.intersection(*rules_of.values()) if rules_of else set()
    phrase_ok = {"+": True, "-": True, "of": "number_of" in shared, "on": "number_on" in shared, "off": "number_off" in shared}
    p5 = [it for it in forms.collect(c05, rep) if it["cfg"] == CFG and
          ((it["line"]["form"] == "pct_phrase" and phrase_ok.get(it["line"]["w"])) or (it["line"]["form"] == "pct_what" and "find_numbers_percent" in shared)
           or (it["line"]["form"] == "pct_total" and "find_total_from_percent" in shared))]
    wordfree += p5 if len(p5) <= per else rng.sample(p5, per)
    p6 = [it for it in forms.collect(c06, rep) if it["cfg"] == CFG and (it["line"]["form"] in ("money_lit", "money_arith") or it.get("variant", "").endswith(".none"))
          and not any(ch.isalpha() and ord(ch) > 127 for ch in it["text"])]
    # currency *alias words* (dollar, euro, kroner ...) are words: only codes and symbols are word-free
    al = {k.lower() for k, v in render.config_json()["currency_alias"].items() if k.isalpha() and k.lower() != v.lower()}
    p6 = [it for it in p6 if not any(w.lower() in al for w in it["text"].replace("$", " ").split())]
    wordfree += p6 if len(p6) <= per else rng.sample(p6, per)
    pairs = []
    for it in wordfree:
        grp = []
        for lang in langs:
            v = dict(it)
            v["lang"] = lang
            v["variant"] = "wordfree"
            v["class_fn"] = cls
            v["feat"] = dict(it.get("feat", {}), form=it["line"]["form"])
            v["nontrivial"] = lang != "en"
            grp.append(len(items))
            items.append(v)
        pairs.append(grp)
    import lint
    lint.report(rep, ("long_months", "short_months", "constant_pair"), "words")
    res = forms.replay(rep, items, "c19.gen")
    # a relabelling keeps the letter-case pattern: if English prints its month names capitalised, so does every language
    def month_cap(out):
        ws = [w for w in (out or "").split() if w[:1].isalpha()]
        return ws[0][:1].isupper() if ws else None
    en_caps = {month_cap((res[i][0] or {}).get("out")) for i, it in enumerate(items) if it.get("lang") == "en" and (res[i][0] or {}).get("k") == "date"} - {None}
    if len(en_caps) == 1:
        want = en_caps.pop()
        for i, it in enumerate(items):
            slot = res[i][0] or {}
            if it.get("lang") != "en" and slot.get("k") == "date" and month_cap(slot.get("out")) not in (None, want):
                rep.violation({"check": "replay", "form": it["line"]["form"], "text": it["text"], "lang": it["lang"], "cfg": it["cfg"], "printed": slot.get("out"),
                               "feat": {"form": it["line"]["form"], "failure": "month_capitalisation_differs_from_english", "lang": it["lang"]},
                               "class": "month_capitalisation|%s|%s" % (it["lang"], (slot.get("out") or "").split()[1][:3] if len((slot.get("out") or "").split()) > 1 else "")})
    # identical printed output in every language for the word-free forms
    for grp in pairs:
        outs = [(items[i]["lang"], (res[i][0] or {}).get("out")) for i in grp]
        if len({o for _, o in outs}) > 1:
            it = items[grp[0]]
            rep.violation({"check": "replay", "form": it["line"]["form"], "text": it["text"], "cfg": it["cfg"], "outputs": outs,
                           "feat": {"form": it["line"]["form"], "failure": "output_differs_across_languages"}, "class": "output_differs|%s" % it["line"]["form"]})
    for grp in case_groups:
        vals = [(items[i]["lang"], items[i]["text"], (res[i][0] or {}).get("k"), (res[i][0] or {}).get("f")) for i in grp]
        en = [v for v in vals if v[0] == "en"][0]
        for v in vals:
            same = v[2] == en[2] and (v[3] == en[3] or (v[3] is not None and en[3] is not None and close_f(v[3], en[3])))
            if not same:
                rep.violation({"check": "replay", "form": "arith", "text": v[1], "lang": v[0], "cfg": CFG, "english": en, "observed": v,
                               "feat": {"form": "arith", "failure": "operator_word_case_differs_from_english", "lang": v[0]},
                               "class": "operator_word_case|%s|%s" % (v[0], items[grp[0]]["variant"])})
    # impl -> spec
    titems = []
    cand = [it for it in items if not ("q" in it["expected"] and it["expected"]["q"][1] > 10 ** 5) and it["expected"]["k"] != "unspec"]
    for it in rng.sample(cand, min(len(cand), 2000 if quick else 30000)):
        titems.append({k: v for k, v in it.items() if k != "expected"})
    forms.trace(rep, titems, "c19.rand")
