"""Unbounded integer lemmas about the specification's oracles, discharged by Apalache as single-state checks
(apalache-mc check --length=0 --inv=Inv: the state variables range over the integers of Init, nothing is enumerated).
They strengthen the *oracle* (DESIGN 5a, 12): a lemma that fails is a tool error (the specification contradicts itself),
never a verdict about the code. Results are listed in the evidence under `apalache_lemmas`."""
import os
import re
import shutil
import subprocess
import time

from vlib import OUT, SPEC, ToolError, log

LEMMAS = {
    "DurLemma": "the greedy parts of a duration sum to its magnitude and each stays below the next unit, for every s in Nat",
    "ClockLemma": "wall -> instant -> wall is the identity, conversion there and back likewise, shown time = wall - source offset + target offset mod 24 h, for all offsets",
    "CalAgree": "the specification's DaysFromCivil equals the closed-form days_from_civil for every valid date of years 1..9999",
    "CalLemma": "closed-form civil_from_days and days_from_civil are mutually inverse and yield valid dates, for every day up to year 273,000",
}


def prove(rep, names, timeout=900):
    out = []
    for name in names:
        d = os.path.join(OUT, "apalache", name)
        shutil.rmtree(d, ignore_errors=True)
        os.makedirs(d, exist_ok=True)
        t = time.time()
        p = subprocess.run(["timeout", str(timeout), "apalache-mc", "check", "--length=0", "--inv=Inv", "--out-dir=" + d, name + ".tla"],
                           cwd=os.path.join(SPEC, "lemmas"), stdout=subprocess.PIPE, stderr=subprocess.STDOUT, text=True)
        wall = time.time() - t
        shutil.rmtree(d, ignore_errors=True)
        ok = "The outcome is: NoError" in p.stdout
        log("[apalache] %s: %s in %.1fs" % (name, "proved" if ok else "NOT proved", wall))
        if p.returncode == 124:
            raise ToolError("Apalache timed out on lemma %s" % name)
        if not ok:
            m = re.search(r"The outcome is: (\w+)", p.stdout)
            raise ToolError("Apalache did not prove lemma %s (%s):\n%s" % (name, m.group(1) if m else "?", p.stdout[-1500:]))
        out.append({"lemma": name, "statement": LEMMAS.get(name, ""), "outcome": "NoError", "wall_s": round(wall, 1)})
    rep.extra.setdefault("apalache_lemmas", []).extend(out)
    return out
