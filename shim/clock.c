/* LD_PRELOAD shim: makes "today" a parameter of a harness run (DESIGN 6.2).
 * clock_gettime(CLOCK_REALTIME) returns $VERIF_FAKE_EPOCH (seconds) when that variable is set. */
#define _GNU_SOURCE
#include <dlfcn.h>
#include <stdlib.h>
#include <time.h>

typedef int (*cg_t)(clockid_t, struct timespec *);

int clock_gettime(clockid_t id, struct timespec *ts) {
    static cg_t real = 0;
    if (!real) real = (cg_t)dlsym(RTLD_NEXT, "clock_gettime");
    if (id == CLOCK_REALTIME) {
        const char *e = getenv("VERIF_FAKE_EPOCH");
        if (e && *e) {
            ts->tv_sec = (time_t)atoll(e);
            ts->tv_nsec = 0;
            return 0;
        }
    }
    return real(id, ts);
}
