------------------------------ MODULE UnixTime ------------------------------
(***************************************************************************)
(* C14.  Unix timestamps.  A timestamp is the pair (d, s): d days and s     *)
(* seconds (0 <= s < 86400) after 1970-01-01 00:00:00 UTC, i.e. the number  *)
(* 86400 d + s, which does not fit TLC's integers for the years the         *)
(* property covers.  [k |-> "ts", d, s] is the plain number with that       *)
(* value; an observed number carries the same split (and the split of the   *)
(* number its printed digits spell).                                        *)
(***************************************************************************)
EXTENDS Calendar

Ts(d, s) == [k |-> "ts", d |-> d + (s - (s % 86400)) \div 86400, s |-> s % 86400]

\* 'N to date' / 'N to Z': the instant, shown in the zone
FromUnix(ts, z) == DateTime(ts.d, ts.s, z.off, z.name)
\* '<date> as unix': midnight UTC of that date
DateToUnix(v) == Ts(v.day, 0)
\* '<date-time> as unix': the instant
DateTimeToUnix(v) == Ts(v.d, v.s)
\* '<time> as unix': that wall-clock time today; specified for a UTC default zone only (whose "today" is meant
\* is otherwise open)
TimeToUnix(w, today) == Ts(today, w)

\* printed date-time <<day, month, year or 0, wall second of day, zone>>: the instant re-expressed in the zone
DateTimePrintedOk(v, today, pr) ==
  LET loc == Ts(v.d, v.s + v.off * 60)
      c   == CivilFromDays(loc.d)
  IN  /\ pr[1] = c.d /\ pr[2] = c.m /\ (pr[3] = c.y \/ (pr[3] = 0 /\ c.y = YearOfDay(today)))
      /\ pr[4] = loc.s /\ pr[5] = v.zone
=============================================================================
