INIT Init
NEXT Next
INVARIANT RoundTrip
INVARIANT Composition
INVARIANT ShiftInverse
INVARIANT DiffSym
CHECK_DEADLOCK FALSE
