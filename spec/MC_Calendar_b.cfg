CONSTANT Y1 = 1890
CONSTANT Y2 = 2110
INIT Init
NEXT Next
INVARIANT RoundTrip
INVARIANT Successor
INVARIANT Shifts
INVARIANT DiffSym
INVARIANT Anchors
CHECK_DEADLOCK FALSE
