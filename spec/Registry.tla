------------------------------ MODULE Registry ------------------------------
(***************************************************************************)
(* C18.  Custom rules and user-defined unit families as data.               *)
(*                                                                         *)
(* calc.rules  sequence of [lang, name, pats, beh] in registration order    *)
(* calc.fams   sequence of [name, items]; items: sequence of                *)
(*             [idx, up, down]: value * up is the amount in item idx + 1,   *)
(*             value * down the amount in item idx - 1                      *)
(* Languages   the configured language tags                                 *)
(*                                                                         *)
(* A rule pattern is an abstract pattern id; a line of form "rule_line"     *)
(* [pat, n, w] matches exactly the pattern pat, with the number field n and *)
(* (for patterns that have one) the text field w bound by name.  A          *)
(* behaviour maps the bound fields to a token or declines.                  *)
(***************************************************************************)
EXTENDS Kinds

Languages == {"en", "tr"}
Baseline == [k |-> "baseline"]     \* "as if no rule applied": what the line evaluates to on a calculator without custom rules

Accepts(beh, line) ==
  CASE beh = "double"   -> TRUE
    [] beh = "usd"      -> TRUE
    [] beh = "guard100" -> line.w = "frob"
    [] beh = "decline"  -> FALSE
Result(beh, line) ==
  CASE beh = "double"   -> Num(QMul(QInt(2), line.n))
    [] beh = "usd"      -> Money(line.n, "usd")
    [] beh = "guard100" -> Num(QAdd(line.n, QInt(100)))

AddRuleTo(calc, lang, name, pats, beh) ==
  IF lang \in Languages THEN [calc EXCEPT !.rules = Append(@, [lang |-> lang, name |-> name, pats |-> pats, beh |-> beh])] ELSE calc
AddRuleRet(lang) == lang \in Languages

HasRule(calc, lang, name) == \E i \in DOMAIN calc.rules : calc.rules[i].lang = lang /\ calc.rules[i].name = name
FirstRule(calc, lang, name) == CHOOSE i \in DOMAIN calc.rules :
   /\ calc.rules[i].lang = lang /\ calc.rules[i].name = name
   /\ \A j \in DOMAIN calc.rules : (calc.rules[j].lang = lang /\ calc.rules[j].name = name) => i <= j
RemoveAt(s, i) == SubSeq(s, 1, i - 1) \o SubSeq(s, i + 1, Len(s))
DeleteRuleFrom(calc, lang, name) ==
  IF HasRule(calc, lang, name) THEN [calc EXCEPT !.rules = RemoveAt(@, FirstRule(calc, lang, name))] ELSE calc

\* the first registered rule of the language one of whose patterns matches and whose behaviour accepts
RuleLineMeaning(calc, lang, line) ==
  LET c == {i \in DOMAIN calc.rules : calc.rules[i].lang = lang /\ line.pat \in calc.rules[i].pats /\ Accepts(calc.rules[i].beh, line)}
  IN  IF c = {} THEN Baseline
      ELSE Result(calc.rules[CHOOSE i \in c : \A j \in c : i <= j].beh, line)

(* ---- unit families ----------------------------------------------------- *)
HasFam(calc, f) == \E i \in DOMAIN calc.fams : calc.fams[i].name = f
FamIx(calc, f) == CHOOSE i \in DOMAIN calc.fams : calc.fams[i].name = f
HasItem(calc, f, idx) == HasFam(calc, f) /\ \E j \in DOMAIN calc.fams[FamIx(calc, f)].items : calc.fams[FamIx(calc, f)].items[j].idx = idx
ItemOf(calc, f, idx) == LET its == calc.fams[FamIx(calc, f)].items IN its[CHOOSE j \in DOMAIN its : its[j].idx = idx]
AddFamTo(calc, f) == IF HasFam(calc, f) THEN calc ELSE [calc EXCEPT !.fams = Append(@, [name |-> f, items |-> <<>>])]
AddItemOk(calc, f, idx) == HasFam(calc, f) /\ ~HasItem(calc, f, idx)
AddItemTo(calc, f, item) ==
  IF AddItemOk(calc, f, item.idx) THEN [calc EXCEPT !.fams[FamIx(calc, f)].items = Append(@, item)] ELSE calc

\* q of item a expressed in item b: multiply along the declared chain; unspecified when a link is missing
RECURSIVE Chain(_, _, _, _, _)
Chain(calc, f, q, a, b) ==
  IF a = b THEN [ok |-> TRUE, q |-> q]
  ELSE IF ~HasItem(calc, f, a) THEN [ok |-> FALSE, q |-> q]
  ELSE IF a < b THEN Chain(calc, f, QMul(q, ItemOf(calc, f, a).up), a + 1, b)
  ELSE Chain(calc, f, QMul(q, ItemOf(calc, f, a).down), a - 1, b)
FamQ(f, idx, q) == [k |-> "famq", fam |-> f, idx |-> idx, q |-> q]
\* with only one of the two units declared the line is neither a conversion nor the rule-free line: unspecified
FamConvMeaning(calc, line) ==
  IF HasItem(calc, line.fam, line.a) /\ HasItem(calc, line.fam, line.b)
  THEN LET c == Chain(calc, line.fam, line.q, line.a, line.b) IN IF c.ok THEN FamQ(line.fam, line.b, c.q) ELSE Unspec
  ELSE IF ~HasItem(calc, line.fam, line.a) /\ ~HasItem(calc, line.fam, line.b) THEN Baseline
  ELSE Unspec
=============================================================================
