------------------------------ MODULE Calendar ------------------------------
(***************************************************************************)
(* C09.  The proleptic Gregorian calendar on integers.  A date value is     *)
(* Date(day): days since 1970-01-01.  Civil dates are records [y, m, d].    *)
(***************************************************************************)
EXTENDS Clock

IsLeap(y) == (y % 4 = 0 /\ y % 100 # 0) \/ y % 400 = 0
DaysInMonth(y, m) ==
  CASE m \in {1, 3, 5, 7, 8, 10, 12} -> 31
    [] m \in {4, 6, 9, 11} -> 30
    [] m = 2 -> IF IsLeap(y) THEN 29 ELSE 28
ValidCivil(y, m, d) == y \in 1..9999 /\ m \in 1..12 /\ d >= 1 /\ d <= DaysInMonth(y, m)

\* days before 1 January of year y, counted from 0001-01-01
DaysBeforeYear(y) == LET p == y - 1 IN 365 * p + (p \div 4) - (p \div 100) + (p \div 400)
CumDays == <<0, 31, 59, 90, 120, 151, 181, 212, 243, 273, 304, 334>>
DaysBeforeMonth(y, m) == CumDays[m] + (IF m > 2 /\ IsLeap(y) THEN 1 ELSE 0)
Epoch == 719162          \* 1970-01-01 counted from 0001-01-01
DaysFromCivil(y, m, d) == DaysBeforeYear(y) + DaysBeforeMonth(y, m) + (d - 1) - Epoch

\* inverse: year by estimate and correction, month by search
YearOfOrd(n) ==   \* n: days from 0001-01-01 (0-based)
  LET e == (n \div 366) + 1                    \* never above the true year
      RECURSIVE Up(_)
      Up(y) == IF DaysBeforeYear(y + 1) <= n THEN Up(y + 1) ELSE y
  IN  Up(e)
MonthOfOrd(y, r) ==   \* r: 0-based day of the year
  CHOOSE m \in 1..12 : DaysBeforeMonth(y, m) <= r /\ (m = 12 \/ DaysBeforeMonth(y, m + 1) > r)
CivilFromDays(day) ==
  LET n == day + Epoch
      y == YearOfOrd(n)
      r == n - DaysBeforeYear(y)
      m == MonthOfOrd(y, r)
  IN  [y |-> y, m |-> m, d |-> r - DaysBeforeMonth(y, m) + 1]
YearOfDay(day) == CivilFromDays(day).y

DateOf(y, m, d) == Date(DaysFromCivil(y, m, d))
NotDate == [k |-> "notkind", kind |-> "date"]

\* N days / weeks: exactly that many days away
AddDays(v, n) == Date(v.day + n)
\* N months: keeps the day of the month and moves the calendar month by N; N years likewise.
\* Where the target month has no such day the statement gives no rule.
AddMonthsCivil(c, n) ==
  LET t == (c.y * 12 + (c.m - 1)) + n
      y == t \div 12
      m == (t % 12) + 1
  IN  IF y \in 1..9999 /\ c.d <= DaysInMonth(y, m) THEN DateOf(y, m, c.d) ELSE Unspec
AddMonths(v, n) == AddMonthsCivil(CivilFromDays(v.day), n)
AddYears(v, n)  == AddMonthsCivil(CivilFromDays(v.day), 12 * n)

ShiftDate(v, op, n, u) ==
  LET k == IF op = "+" THEN n ELSE -n IN
  CASE u = "day"   -> AddDays(v, k)
    [] u = "week"  -> AddDays(v, 7 * k)
    [] u = "month" -> AddMonths(v, k)
    [] u = "year"  -> AddYears(v, k)

DiffDates(a, b) == Dur(AbsI(a.day - b.day), 0)

\* printed form <<day, month, year>>; the year may be left out (0) for a date of the current year
DatePrintedOk(v, today, pr) ==
  LET c == CivilFromDays(v.day) IN
  /\ pr[1] = c.d /\ pr[2] = c.m
  /\ (pr[3] = c.y \/ (pr[3] = 0 /\ c.y = YearOfDay(today)))
=============================================================================
