---------------------------- MODULE MC_Calendar ----------------------------
(***************************************************************************)
(* Design-level check of the C09 oracle: for every day of the year range    *)
(* the two conversions are mutually inverse, yield valid dates, successive  *)
(* days are successive dates, and the shift / difference operators have the *)
(* algebra the statement implies.                                           *)
(***************************************************************************)
EXTENDS Calendar
CONSTANTS Y1, Y2
VARIABLE n
First == DaysFromCivil(Y1, 1, 1)
Last  == DaysFromCivil(Y2, 12, 31)
\* 256 chains of consecutive days, so that TLC's workers share the range
Step == ((Last - First) \div 256) + 1
Init == n \in {First + i * Step : i \in 0..255} /\ n <= Last
Next == n < Last /\ (n + 1 - First) % Step # 0 /\ n' = n + 1
C == CivilFromDays(n)
RoundTrip == ValidCivil(C.y, C.m, C.d) /\ DaysFromCivil(C.y, C.m, C.d) = n /\ C.y \in Y1..Y2
Successor ==
  LET c2 == CivilFromDays(n + 1) IN
  \/ (c2.y = C.y /\ c2.m = C.m /\ c2.d = C.d + 1)
  \/ (c2.y = C.y /\ c2.m = C.m + 1 /\ c2.d = 1 /\ C.d = DaysInMonth(C.y, C.m))
  \/ (c2.y = C.y + 1 /\ c2.m = 1 /\ c2.d = 1 /\ C.m = 12 /\ C.d = 31)
Shifts ==
  /\ \A k \in {0, 1, 29, 30, 31, 365, 366, 10000} : AddDays(AddDays(Date(n), k), -k) = Date(n)
  /\ \A k \in {1, 2, 11, 12, 13, 24, 1200} :
        LET a == AddMonths(Date(n), k) IN
        (a.k = "date") => /\ CivilFromDays(a.day).d = C.d
                          /\ (CivilFromDays(a.day).y * 12 + CivilFromDays(a.day).m) = (C.y * 12 + C.m) + k
                          /\ AddMonths(a, -k) = Date(n)
  /\ (C.d <= 28 /\ C.y < 9000) => AddMonths(Date(n), 14).k = "date" /\ AddYears(Date(n), 3) = AddMonths(Date(n), 36)
  /\ ShiftDate(Date(n), "-", 2, "week") = Date(n - 14)
DiffSym == \A k \in {0, 1, 365, 7732} : DiffDates(Date(n), Date(n + k)) = Dur(k, 0) /\ DiffDates(Date(n + k), Date(n)) = Dur(k, 0)
Anchors == /\ DaysFromCivil(1970, 1, 1) = 0 /\ DaysFromCivil(2000, 3, 1) = 11017 /\ DaysFromCivil(2024, 2, 29) = 19782
           /\ DaysFromCivil(1, 1, 1) = -719162 /\ DaysFromCivil(9999, 12, 31) = 2932896
           /\ ~ValidCivil(2019, 2, 29) /\ ValidCivil(2000, 2, 29) /\ ~ValidCivil(1900, 2, 29) /\ ~ValidCivil(2020, 4, 31) /\ ~ValidCivil(2020, 13, 1)
=============================================================================
