CONSTANT Y1 = 1
CONSTANT Y2 = 8999
INIT Init
NEXT Next
INVARIANT RoundTrip
INVARIANT Successor
INVARIANT Shifts
INVARIANT DiffSym
INVARIANT Anchors
CHECK_DEADLOCK FALSE
