INIT Init
NEXT Next
INVARIANT RoundTrip
INVARIANT NoLeadingZero
INVARIANT IncOk
INVARIANT SmallAgree
INVARIANT Anchors
CHECK_DEADLOCK FALSE
