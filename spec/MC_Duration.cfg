CONSTANT MaxDays = 1200
INIT Init
NEXT Next
INVARIANT PartsSum
INVARIANT PartsSmall
INVARIANT Ordered
INVARIANT NegInvolutive
INVARIANT SubSelf
INVARIANT AsFloors
INVARIANT UnitsAgree
INVARIANT ReadBack
CHECK_DEADLOCK FALSE
