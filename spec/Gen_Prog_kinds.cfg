CONSTANT MaxLen = 3
CONSTANT Alphabet = {5,6,7,10,11,16,17,18,19,20,21,22,23,24,25}
INIT Init
NEXT Next
INVARIANT Emit
CHECK_DEADLOCK FALSE
