INIT Init
NEXT Next
INVARIANT RoundTrip
INVARIANT LocalReadBack
INVARIANT Midnight
CHECK_DEADLOCK FALSE
