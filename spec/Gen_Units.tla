------------------------------ MODULE Gen_Units ------------------------------
(***************************************************************************)
(* C12 generator: every ordered pair of the 33 units x three amounts        *)
(* (conversions within a kind expect the standard factor, across kinds      *)
(* "not a quantity of the target's kind"), literals, and arithmetic         *)
(* between quantities of one kind and with plain numbers.                   *)
(***************************************************************************)
EXTENDS Meaning, Json
X(q, u) == [q |-> q, u |-> u]
Amounts == {One, Q(5, 2), QInt(1000)}
ArithPairs == {<<"km", "m">>, <<"m", "cm">>, <<"cm", "in">>, <<"ft", "in">>, <<"mile", "yard">>, <<"kg", "g">>, <<"g", "mg">>, <<"lb", "oz">>,
               <<"st", "lb">>, <<"kb", "byte">>, <<"byte", "bit">>, <<"gb", "mb">>, <<"m", "m">>, <<"in", "cm">>, <<"tonne", "kg">>}
\* units close enough in size for an exact sum to stay inside TLC's integers
SizeClasses == {{"mm", "cm", "dm", "m", "in", "ft", "yard"}, {"m", "dam", "hm", "km", "yard", "furlong", "mile"},
                {"mg", "cg", "dg", "g", "oz"}, {"g", "dag", "hg", "kg", "oz", "lb", "st"}, {"kg", "tonne", "lb", "st"},
                {"bit", "byte", "kb", "mb", "gb", "tb", "pb", "eb", "zb", "yb"}}
SameKindPairs == {p \in UnitNames \X UnitNames : UnitOf(p[1]).kind = UnitOf(p[2]).kind}
Lines == {[form |-> "unit_lit", x |-> X(q, u)] : q \in Amounts \cup {Q(-7, 4), Zero}, u \in UnitNames}
    \cup {[form |-> "unit_conv", x |-> X(q, a), target |-> b] : q \in Amounts, a \in UnitNames, b \in UnitNames}
    \cup {[form |-> "unit_conv", x |-> X(Zero, p[1]), target |-> p[2]] : p \in SameKindPairs}
    \* every ordered pair of units of one kind in sums and ratios (units at the same position of different families included)
    \cup {[form |-> "unit_arith", l |-> X(QInt(3), p[1]), op |-> o, r |-> X(Q(5, 2), p[2])] :
              p \in {q \in SameKindPairs : UnitOf(q[2]).e2 - UnitOf(q[1]).e2 \in -20..20 /\ \E c \in SizeClasses : q[1] \in c /\ q[2] \in c}, o \in {"+", "/"}}
    \* ratios of memory quantities any number of binary orders apart (terms over 2^k)
    \cup {[form |-> "unit_arith", l |-> X(QInt(3), p[1]), op |-> "/", r |-> X(Q(5, 2), p[2])] :
              p \in {q \in SameKindPairs : UnitOf(q[1]).kind = "memory" /\ UnitOf(q[2]).e2 - UnitOf(q[1]).e2 \notin -20..20}}
    \cup {[form |-> "unit_arith", l |-> X(QInt(3), p[1]), op |-> o, r |-> X(Q(5, 2), p[2])] : p \in ArithPairs, o \in {"+", "-", "/"}}
    \cup {[form |-> "unit_arith", l |-> X(Q(-5, 2), u), op |-> o, r |-> X(n, "")] : u \in {"km", "in", "kg", "oz", "mb"}, o \in {"*", "/"}, n \in {QInt(4), Q(1, 2), Zero}}
VARIABLE line
Init == line \in Lines
Next == UNCHANGED line
Ctx0 == [calc |-> DefaultCalc, lang |-> "en", today |-> 0, env |-> EmptyEnv]
Emit == PrintT(<<"CASE", ToJson([line |-> line, expected |-> LineMeaning(Ctx0, line).slot])>>)
=============================================================================
