------------------------------ MODULE Gen_Units ------------------------------
(***************************************************************************)
(* C12 generator: every ordered pair of the 33 units x three amounts        *)
(* (conversions within a kind expect the standard factor, across kinds      *)
(* "not a quantity of the target's kind"), literals, and arithmetic         *)
(* between quantities of one kind and with plain numbers.                   *)
(***************************************************************************)
EXTENDS Meaning, Json
X(q, u) == [q |-> q, u |-> u]
Amounts == {One, Q(5, 2), QInt(1000)}
ArithPairs == {<<"km", "m">>, <<"m", "cm">>, <<"cm", "in">>, <<"ft", "in">>, <<"mile", "yard">>, <<"kg", "g">>, <<"g", "mg">>, <<"lb", "oz">>,
               <<"st", "lb">>, <<"kb", "byte">>, <<"byte", "bit">>, <<"gb", "mb">>, <<"m", "m">>, <<"in", "cm">>, <<"tonne", "kg">>}
Lines == {[form |-> "unit_lit", x |-> X(q, u)] : q \in Amounts \cup {Q(-7, 4), Zero}, u \in UnitNames}
    \cup {[form |-> "unit_conv", x |-> X(q, a), target |-> b] : q \in Amounts, a \in UnitNames, b \in UnitNames}
    \cup {[form |-> "unit_arith", l |-> X(QInt(3), p[1]), op |-> o, r |-> X(Q(5, 2), p[2])] : p \in ArithPairs, o \in {"+", "-", "/"}}
    \cup {[form |-> "unit_arith", l |-> X(Q(-5, 2), u), op |-> o, r |-> X(n, "")] : u \in {"km", "in", "kg", "oz", "mb"}, o \in {"*", "/"}, n \in {QInt(4), Q(1, 2), Zero}}
VARIABLE line
Init == line \in Lines
Next == UNCHANGED line
Ctx0 == [calc |-> DefaultCalc, lang |-> "en", today |-> 0, env |-> EmptyEnv]
Emit == PrintT(<<"CASE", ToJson([line |-> line, expected |-> LineMeaning(Ctx0, line).slot])>>)
=============================================================================
