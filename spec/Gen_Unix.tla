------------------------------ MODULE Gen_Unix ------------------------------
(***************************************************************************)
(* C14 generator: timestamps on the boundaries (year 1, the epoch, 2^31,    *)
(* year 9999) and a grid, to date-times in default and explicit zones and   *)
(* back; dates and times to timestamps.                                     *)
(***************************************************************************)
EXTENDS Meaning, Json, IOUtils
CONSTANT Big
Consts == JsonDeserialize(IOEnv.CONSTS)
Today == Consts.today
SeqSet(s) == {s[i] : i \in DOMAIN s}
Zones == SeqSet(Consts.zones)
Defs == SeqSet(Consts.defaults)
T(d, s) == [d |-> d, s |-> s]
Boundary == {T(-719162, 0), T(-1, 0), T(-1, 86399), T(0, 0), T(0, 1), T(24855, 11647), T(24855, 11648), T(19266, 0), T(2932896, 86399),
             T(19782, 43200), T(-25567, 1), T(10957, 0), T(11016, 86399)}
\* instants around the turn of the current year and the next: the year-less print form is chosen by the year the instant
\* has in the zone it is shown in, which within |offset| hours of 1 January differs from its UTC year
YearEdges == {T(DaysFromCivil(y, 1, 1) + k[1], k[2]) : y \in {YearOfDay(Today), YearOfDay(Today) + 1},
                                                       k \in {<<-1, 43200>>, <<-1, 75600>>, <<-1, 86399>>, <<0, 0>>, <<0, 7200>>, <<0, 43200>>}}
Grid == {T(d, s) : d \in {k * (IF Big THEN 9973 ELSE 99991) - 700000 : k \in 0..(IF Big THEN 360 ELSE 36)}, s \in {0, 3661, 86399}}
C(y, m, d) == [y |-> y, m |-> m, d |-> d]
DateSet == {C(1, 1, 1), C(1969, 12, 31), C(1970, 1, 1), C(2000, 2, 29), C(2038, 1, 19), C(2038, 1, 20), C(2040, 1, 1), C(9999, 12, 31), C(0, 3, 1), [rel |-> 0], [rel |-> 1]}
       \cup {C(y, m, 15) : y \in {1600, 1900, 2022}, m \in {1, 6, 12}}
DtDates == {C(1970, 1, 1), C(2000, 2, 29), C(2022, 10, 1), C(2038, 1, 19), C(1969, 12, 31), C(9999, 12, 31), C(0, 3, 1)}
Lines == {[form |-> "unix_from", ts |-> t, z |-> z] : t \in Boundary \cup Grid \cup YearEdges, z \in Zones \cup {NoZone}}
    \cup {[form |-> "unix_round", ts |-> t, z |-> z] : t \in Boundary \cup Grid, z \in Zones \cup {NoZone}}
    \cup {[form |-> "unix_to_date", a |-> a] : a \in DateSet}
    \cup {[form |-> "unix_to_time", w |-> w] : w \in {0, 1800, 32707, 41400, 84600, 86399}}
    \* date-times written as '<date> at <time>': the value, its timestamp on one line, shifted by a duration, shown in a zone
    \cup {[form |-> f, a |-> a, w |-> w] : f \in {"dt_at", "dt_unix"}, a \in DtDates, w \in {0, 1800, 45015, 84600, 86399}}
    \cup {[form |-> "dt_shift", a |-> a, w |-> w, op |-> o, parts |-> p] : a \in DtDates, w \in {1800, 84600}, o \in {"+", "-"},
              p \in {<<[n |-> 2, u |-> "hour"]>>, <<[n |-> 90, u |-> "minute"], [n |-> 30, u |-> "second"]>>, <<[n |-> 3, u |-> "day"]>>}}
    \cup {[form |-> "dt_conv", a |-> a, w |-> w, z2 |-> z] : a \in DtDates, w \in {1800, 84600}, z \in Zones}
VARIABLE c
Init == \E d \in Defs : \E l \in Lines : c = [def |-> d, line |-> l]
Next == UNCHANGED c
Ctx0 == [calc |-> [DefaultCalc EXCEPT !.tz = c.def], lang |-> "en", today |-> Today, env |-> EmptyEnv]
Civ(v) == IF v.k = "datetime"
          THEN LET loc == Ts(v.d, v.s + v.off * 60) IN v @@ [civil |-> CivilFromDays(loc.d), wall |-> loc.s, cury |-> YearOfDay(Today)]
          ELSE v
Emit == PrintT(<<"CASE", ToJson([def |-> c.def, line |-> c.line, expected |-> Civ(LineMeaning(Ctx0, c.line).slot)])>>)
=============================================================================
