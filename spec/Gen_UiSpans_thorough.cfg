CONSTANT MaxLen = 5
INIT Init
NEXT Next
INVARIANT Emit
CHECK_DEADLOCK FALSE
