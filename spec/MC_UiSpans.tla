----------------------------- MODULE MC_UiSpans -----------------------------
(***************************************************************************)
(* Sanity of the C17 predicate on all token lists of up to 3 tokens over a  *)
(* 4-character line: well-formedness is exactly "the spans, read in list    *)
(* order, are a strictly increasing chain of non-empty disjoint intervals". *)
(***************************************************************************)
EXTENDS UiSpans
N == 4
Spans == {<<s, e, "Number">> : s \in -1..N, e \in 0..(N + 1)}
VARIABLE toks
Init == toks \in {<<>>} \cup {<<a>> : a \in Spans} \cup {<<a, b>> : a \in Spans, b \in Spans}
Next == UNCHANGED toks
ChainEq == WellFormedSpans(N, toks) <=>
          /\ \A i \in DOMAIN toks : toks[i][1] >= 0 /\ toks[i][2] <= N /\ toks[i][1] < toks[i][2]
          /\ (Len(toks) = 2 => toks[1][2] <= toks[2][1])
Anchors == /\ UiOk(5, << <<0, 1, "Number">>, <<2, 3, "Operator">>, <<4, 5, "Number">> >>, << <<2, 3, "Operator">> >>)
           /\ ~UiOk(5, << <<0, 2, "Number">>, <<1, 3, "Operator">> >>, <<>>)
           /\ ~UiOk(5, << <<2, 3, "Operator">>, <<0, 1, "Number">> >>, <<>>)
           /\ ~UiOk(5, << <<0, 6, "Comment">> >>, <<>>)
           /\ ~UiOk(5, << <<0, 1, "Number">> >>, << <<0, 1, "Operator">> >>)
=============================================================================
