------------------------------ MODULE MC_Arith ------------------------------
(***************************************************************************)
(* Design-level check of the C02 oracle: the token grammar of Arith.tla    *)
(* really implements precedence, left associativity, grouping, negation    *)
(* and adjacency.  For every expression tree of depth <= 2 over Lits the    *)
(* value computed from the tokens equals the value defined on the tree,     *)
(* for the minimally and the fully parenthesised spelling, and dropping a   *)
(* "+" between two literals does not change it.                             *)
(***************************************************************************)
EXTENDS Arith, FiniteSets
CONSTANT Depth

Ops == {"+", "-", "*", "/"}
Step(S) == S \cup {Bin(o, a, b) : o \in Ops, a \in S, b \in S} \cup {Par(a) : a \in S} \cup {Neg(a) : a \in S}
Lits == {Lit(0, 1), Lit(1, 2), Lit(2, 1), Lit(7, 1)}
\* suffixed literals only to depth 1: sums of values of very different magnitude leave TLC's 32-bit range
SLits == {LitS(3, 1, "k"), LitS(1, 2, "M"), Lit(2, 1)}
BigLits == SLits \cup {LitS(5, 1, "G"), LitS(2, 1, "T"), LitS(7, 2, "P"), LitS(3, 1, "Z"), LitS(2, 1, "Y")}
SufTrees == Step(SLits) \cup BigLits \cup {Bin(o, a, b) : o \in {"*", "/"}, a \in BigLits, b \in SLits}
                        \cup {Bin(o, a, a) : o \in Ops, a \in BigLits} \cup {Neg(a) : a \in BigLits}
RECURSIVE Trees(_)
Trees(n) == IF n = 0 THEN Lits ELSE Step(Trees(n - 1))

VARIABLE e
Init == e \in Trees(Depth) \cup SufTrees
Next == UNCHANGED e

PlusBetweenLits(toks) == {i \in 2..(Len(toks) - 1) : toks[i].k = "op" /\ toks[i].c = "+" /\ toks[i-1].k = "num" /\ toks[i+1].k = "num"}
DropAt(toks, i) == SubSeq(toks, 1, i - 1) \o SubSeq(toks, i + 1, Len(toks))

MinimalAgrees  == LET r == ArithLine(Unparse(e, 0, FALSE)) IN r.ok /\ r.v = TreeValue(e)
FullAgrees     == LET r == ArithLine(UnparseFull(e)) IN r.ok /\ r.v = TreeValue(e)
AdjacencyAdds  == LET toks == Unparse(e, 0, FALSE) IN
                  \A i \in PlusBetweenLits(toks) : LET r == ArithLine(DropAt(toks, i)) IN r.ok /\ r.v = TreeValue(e)
Canonical      == LET v == TreeValue(e) IN
                  /\ v = Norm(v)
                  /\ (v = Zero \/ v[1] % 1000 # 0) /\ v[2] > 0 /\ Gcd(Abs(v[1]), v[2]) = 1
                  /\ (v[3] = 0 \/ Gcd(v[2], 1000) = 1) /\ v[3] >= 0 /\ v[3] % 3 = 0
\* unbalanced or dangling token sequences are not sentences
Rejects        == LET toks == Unparse(e, 0, FALSE) IN
                  /\ ~ArithLine(toks \o <<TRp>>).ok
                  /\ ~ArithLine(<<TLp>> \o toks).ok
                  /\ ~ArithLine(toks \o <<TOp("*")>>).ok
=============================================================================
