---------------------------- MODULE Gen_NumFormat ----------------------------
(***************************************************************************)
(* C07 generator: decimal shapes - integer parts on the grouping            *)
(* boundaries, every fraction pattern of length <= MaxFrac over {0, 4, 5, 9} *)
(* (all x.xx5, x.995, 0.00x cases), both signs.  A decimal shape is not a   *)
(* double: the driver writes it as a literal, takes the double the          *)
(* calculator made of it and lets TLC validate the printed characters       *)
(* against NumFormat on that double's exact expansion (Trace.tla).          *)
(***************************************************************************)
EXTENDS Meaning, Json
CONSTANT MaxFrac
IPs == {<<0>>, <<9>>, <<9, 9>>, <<9, 9, 9>>, <<1, 0, 0, 0>>, <<9, 9, 9, 9, 9, 9>>, <<1, 2, 3, 4, 5, 6, 7>>,
        <<1, 0, 0, 0, 0, 0, 0, 0, 0, 0, 0, 0, 0, 0, 0, 0>>}
FD == {0, 4, 5, 9}
RECURSIVE Fracs(_)
Fracs(n) == IF n = 0 THEN {<<>>} ELSE Fracs(n - 1) \cup {Append(f, d) : f \in {g \in Fracs(n - 1) : Len(g) = n - 1}, d \in FD}
VARIABLE s
Init == s \in {[neg |-> n, ip |-> ip, fp |-> fp] : n \in BOOLEAN, ip \in IPs, fp \in Fracs(MaxFrac)}
Next == UNCHANGED s
Emit == PrintT(<<"CASE", ToJson(s)>>)
=============================================================================
