----------------------------- MODULE Gen_UiSpans -----------------------------
(***************************************************************************)
(* C17 generator: every sequence of 1..MaxLen lexeme classes (number, based  *)
(* literal,                                                                 *)
(* operator, ASCII word, words of 2- and 3-byte letters, a 4-byte symbol,   *)
(* a word whose case mapping changes its byte length), optionally followed  *)
(* by a comment.  The driver picks concrete strings and knows their spans.  *)
(***************************************************************************)
EXTENDS Sequences, Naturals, Json, TLC
CONSTANT MaxLen
Classes == {"num", "frac", "based", "op", "lp_rp", "word", "mb2", "mb3", "sym4", "casey", "assign", "zone", "month"}
VARIABLE s
Init == s = [seq |-> <<>>, comment |-> FALSE]
Next == \/ (Len(s.seq) < MaxLen /\ ~s.comment /\ \E c \in Classes : s' = [s EXCEPT !.seq = Append(@, c)])
        \/ (~s.comment /\ s' = [s EXCEPT !.comment = TRUE])
Emit == (s.seq = <<>> /\ ~s.comment) \/ PrintT(<<"CASE", ToJson(s)>>)
=============================================================================
