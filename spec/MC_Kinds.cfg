INIT Init
NEXT Next
INVARIANT Facts
CHECK_DEADLOCK FALSE
