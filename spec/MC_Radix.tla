------------------------------ MODULE MC_Radix ------------------------------
(***************************************************************************)
(* Design-level check of the C13 oracle: reading the printed literal gives  *)
(* the integer back in every base, for all n < 2^12 and the values 2^k - 1, *)
(* 2^k, 2^k + 1 for k <= 53; decimal anchors.                               *)
(***************************************************************************)
EXTENDS Radix
Ones(k) == [i \in 1..k |-> 1]
Pow2(k) == <<1>> \o Zeros(k)
Boundary == UNION {{Ones(k), Pow2(k), Inc(Pow2(k))} : k \in 1..53}
Small == {CanonBits(NatBits(n, 12)) : n \in 0..4095}
VARIABLE b
Init == b \in Small \cup Boundary
Next == UNCHANGED b
RoundTrip == \A base \in {2, 8, 10, 16} : ReadBase(PrintBase(b, base), base) = b /\ IsCanonBits(b)
NoLeadingZero == \A base \in {2, 8, 10, 16} : LET p == PrintBase(b, base) IN Len(p) = 1 \/ p[1] # "0"
IncOk == (Len(b) <= 12) => BitsNat(Inc(b)) = BitsNat(b) + 1 /\ AddSmall(b, 3) = Inc(Inc(Inc(b)))
SmallAgree == (Len(b) <= 12) => /\ PrintBase(b, 10) = DecChars(ToDecimal(b))
                                /\ BitsNat(ReadBase(PrintBase(b, 16), 16)) = BitsNat(b)
Anchors == /\ PrintBase(Pow2(32), 10) = <<"4", "2", "9", "4", "9", "6", "7", "2", "9", "6">>
           /\ PrintBase(Pow2(53), 10) = <<"9", "0", "0", "7", "1", "9", "9", "2", "5", "4", "7", "4", "0", "9", "9", "2">>
           /\ PrintBase(NatBits(255, 8), 16) = <<"F", "F">> /\ PrintBase(NatBits(255, 8), 8) = <<"3", "7", "7">>
           /\ ReadBase(<<"1", "0">>, 16) = <<1, 0, 0, 0, 0>> /\ ReadBase(<<"1", "7">>, 8) = <<1, 1, 1, 1>>
           /\ PrintBase(<<0>>, 16) = <<"0">> /\ ReadBase(<<"0", "0", "7">>, 10) = <<1, 1, 1>>
=============================================================================
