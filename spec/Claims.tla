------------------------------- MODULE Claims -------------------------------
(***************************************************************************)
(* The tokenizers' claim discipline (implementation-shaped, non-gating;     *)
(* DESIGN 14.11).  The month parser, the eleven regex tokenizers (comment,  *)
(* field, money, atom, percent, timezone, time, number, text, whitespace,   *)
(* operator - in this order), the alias and the unit tokenizers all ask     *)
(* Tokinizer::add_token_location for a byte span [s, t) of the line; the    *)
(* span is granted unless the guard finds it taken.  First come, first      *)
(* served: what an earlier tokenizer holds, a later one cannot have.        *)
(*                                                                         *)
(* The guard of the code, literally (src/tokinizer/mod.rs):                 *)
(*     refused iff for some granted [a, b):                                 *)
(*          (a <= s /\ b > s)  \/  (a < t /\ b >= t)                        *)
(* i.e. the new span's first byte or its last byte lies in a granted span.  *)
(* That is NOT the disjointness test: a new span that strictly CONTAINS a   *)
(* granted one (s < a, b < t) is granted.  MC_Claims exhibits it (3         *)
(* positions suffice); with the full overlap test the invariant holds.      *)
(* Whether real lines reach it is a question about the regexes, answered by *)
(* validating the recorded claims of real lines (ClaimsTrace).              *)
(***************************************************************************)
EXTENDS Naturals, FiniteSets
CONSTANTS N,          \* positions 0..N
          FullTest    \* TRUE: the guard is the overlap test (what Disjoint needs); FALSE: the guard of the code
VARIABLE granted      \* set of <<s, t>>
Spans == {p \in (0..N) \X (0..N) : p[1] < p[2]}
Overlap(p, q) == p[1] < q[2] /\ q[1] < p[2]
CodeGuardRefuses(G, p) == \E g \in G : (g[1] <= p[1] /\ g[2] > p[1]) \/ (g[1] < p[2] /\ g[2] >= p[2])
Refuses(G, p) == IF FullTest THEN \E g \in G : Overlap(g, p) ELSE CodeGuardRefuses(G, p)
Init == granted = {}
Claim(p) == granted' = IF Refuses(granted, p) THEN granted ELSE granted \cup {p}
Next == \E p \in Spans : Claim(p)
Spec == Init /\ [][Next]_granted

Disjoint == \A p \in granted, q \in granted : p # q => ~Overlap(p, q)
\* what the code's guard does guarantee: no granted span starts or ends inside another one that was granted before it
\* (state-level consequence: two granted spans overlap only by strict containment)
OnlyContainment == \A p \in granted, q \in granted : (p # q /\ Overlap(p, q)) => ((p[1] < q[1] /\ q[2] < p[2]) \/ (q[1] < p[1] /\ p[2] < q[2]))
\* the two guards differ exactly on strict containment
GuardsDifferOnlyOnContainment ==
  \A p \in Spans : (CodeGuardRefuses(granted, p) # (\E g \in granted : Overlap(g, p)))
                      => (~CodeGuardRefuses(granted, p) /\ \E g \in granted : p[1] < g[1] /\ g[2] < p[2])
=============================================================================
