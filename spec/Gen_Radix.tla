------------------------------ MODULE Gen_Radix ------------------------------
(***************************************************************************)
(* C13 generator: the integers 0..Small, 2^k - 1, 2^k, 2^k + 1 (k <= 53,    *)
(* nothing above 2^53) and a few digit patterns, as literals in each base,  *)
(* in arithmetic with a decimal, and converted to each of the four bases;   *)
(* decimal sources also with the fractions .25 and .75.                     *)
(***************************************************************************)
EXTENDS Meaning, Json
CONSTANT Small, KStep
Ones(k) == [i \in 1..k |-> 1]
Pow2(k) == <<1>> \o Zeros(k)
Ks == {k \in 4..53 : k % KStep = 0 \/ k \in {4, 8, 16, 24, 31, 32, 33, 52, 53}}
Ints == {CanonBits(NatBits(n, 12)) : n \in (0..Small) \cup {175, 205, 2801, 3294, 4095}}
   \cup UNION {{Ones(k), Pow2(k)} : k \in Ks} \cup {Inc(Pow2(k)) : k \in Ks \ {53}}
Lines == {[form |-> "radix_lit", base |-> b, bits |-> n] : b \in {2, 8, 16}, n \in Ints}
    \cup {[form |-> "radix_arith", base |-> b, bits |-> n, add |-> a] : b \in {2, 8, 16}, n \in {x \in Ints : Len(x) <= 52}, a \in {1, 2}}
    \cup {[form |-> "radix_conv", base |-> b, bits |-> n, q |-> 0, target |-> t] : b \in {2, 8, 10, 16}, n \in Ints, t \in {2, 8, 10, 16}}
    \cup {[form |-> "radix_conv", base |-> 10, bits |-> n, q |-> q, target |-> t] : n \in {x \in Ints : Len(x) <= 40}, q \in {1, 3}, t \in {2, 8, 10, 16}}
VARIABLE line
Init == line \in Lines
Next == UNCHANGED line
Ctx0 == [calc |-> DefaultCalc, lang |-> "en", today |-> 0, env |-> EmptyEnv]
Src(l) == IF l.base = 10 THEN DecChars(ToDecimal(l.bits)) ELSE PrintPow2(l.bits, l.base)
Emit == PrintT(<<"CASE", ToJson([line |-> line, digits |-> Src(line), expected |-> WithPrint(LineMeaning(Ctx0, line).slot)])>>)
=============================================================================
