------------------------------- MODULE Percent -------------------------------
(***************************************************************************)
(* C05.  Percentage phrases.  An operand is [q |-> amount, cur |-> code]    *)
(* with cur = "" for a plain number; a percentage is a rational p.          *)
(* A zero divisor yields 0 (as for plain division, C02).                    *)
(***************************************************************************)
EXTENDS Radix

Hundred == QInt(100)
OperandValue(x) == IF x.cur = "" THEN Num(x.q) ELSE Money(x.q, x.cur)
SameKind(x, q) == IF x.cur = "" THEN Num(q) ELSE Money(q, x.cur)

PctOf(p, x)   == QDiv(QMul(x, p), Hundred)                \* p% of X  = X p / 100
PctOn(p, x)   == QAdd(x, PctOf(p, x))                     \* p% on X  = X (1 + p/100)
PctOff(p, x)  == QSub(x, PctOf(p, x))                     \* p% off X = X (1 - p/100)
PctWhat(a, b) == QDiv(QMul(a, Hundred), b)                \* A is what % of B = 100 A / B
PctTotal(a, p) == QDiv(QMul(a, Hundred), p)               \* A is p% of what  = 100 A / p

PctPhrase(w, p, x) == CASE w = "of" -> PctOf(p, x) [] w = "on" -> PctOn(p, x) [] w = "off" -> PctOff(p, x)
                        [] w = "+" -> PctOn(p, x) [] w = "-" -> PctOff(p, x)
=============================================================================
