CONSTANT MaxLen = 3
CONSTANT NClass = 26
INIT Init
NEXT Next
INVARIANT Emit
CHECK_DEADLOCK FALSE
