CONSTANT MaxLen = 3
CONSTANT NClass = 25
INIT Init
NEXT Next
INVARIANT Emit
CHECK_DEADLOCK FALSE
