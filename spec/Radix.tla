-------------------------------- MODULE Radix --------------------------------
(***************************************************************************)
(* C13.  Based integer literals and base conversion.  The integers of the   *)
(* property go up to 2^53 and beyond TLC's 32-bit range, so a non-negative  *)
(* integer is a sequence of bits, most significant first, without leading   *)
(* zeros (<<0>> is zero).  Digits of a printed or written literal are a     *)
(* sequence of one-character strings.                                       *)
(***************************************************************************)
EXTENDS UnixTime

HexChars == <<"0", "1", "2", "3", "4", "5", "6", "7", "8", "9", "A", "B", "C", "D", "E", "F">>
DigitVal(c) == CHOOSE i \in 0..15 : HexChars[i + 1] = c
BitsPerDigit(base) == CASE base = 2 -> 1 [] base = 8 -> 3 [] base = 16 -> 4
Prefix(base) == CASE base = 2 -> "0b" [] base = 8 -> "0o" [] base = 16 -> "0x" [] base = 10 -> ""

RECURSIVE StripZeros(_)
StripZeros(b) == IF Len(b) > 1 /\ Head(b) = 0 THEN StripZeros(Tail(b)) ELSE b
CanonBits(b) == IF b = <<>> THEN <<0>> ELSE StripZeros(b)
IsCanonBits(b) == b # <<>> /\ (Len(b) = 1 \/ Head(b) = 1) /\ \A i \in DOMAIN b : b[i] \in {0, 1}

\* small number -> bits (k bits wide)
RECURSIVE NatBits(_, _)
NatBits(n, k) == IF k = 0 THEN <<>> ELSE NatBits(n \div 2, k - 1) \o <<n % 2>>
RECURSIVE BitsNat(_)        \* only for short sequences
BitsNat(b) == IF b = <<>> THEN 0 ELSE 2 * BitsNat(SubSeq(b, 1, Len(b) - 1)) + b[Len(b)]

Zeros(k) == [i \in 1..k |-> 0]
PadLeft(b, k) == LET r == Len(b) % k IN IF r = 0 THEN b ELSE Zeros(k - r) \o b

\* digits of a power-of-two base
RECURSIVE GroupDigits(_, _)
GroupDigits(b, k) == IF b = <<>> THEN <<>> ELSE <<HexChars[BitsNat(SubSeq(b, 1, k)) + 1]>> \o GroupDigits(SubSeq(b, k + 1, Len(b)), k)
PrintPow2(b, base) == GroupDigits(PadLeft(CanonBits(b), BitsPerDigit(base)), BitsPerDigit(base))
RECURSIVE DigitsBits(_, _)
DigitsBits(ds, k) == IF ds = <<>> THEN <<>> ELSE NatBits(DigitVal(Head(ds)), k) \o DigitsBits(Tail(ds), k)
ReadPow2(ds, base) == CanonBits(DigitsBits(ds, BitsPerDigit(base)))

\* decimal digit sequences (values 0..9, most significant first)
RECURSIVE DoubleAdd(_, _)          \* 2 * ds + carry, processed from the least significant digit
DoubleAdd(ds, carry) ==
  IF ds = <<>> THEN (IF carry = 0 THEN <<>> ELSE <<carry>>)
  ELSE LET v == 2 * ds[Len(ds)] + carry IN DoubleAdd(SubSeq(ds, 1, Len(ds) - 1), v \div 10) \o <<v % 10>>
RECURSIVE ToDecimalFrom(_, _)
ToDecimalFrom(b, acc) == IF b = <<>> THEN acc ELSE ToDecimalFrom(Tail(b), DoubleAdd(acc, Head(b)))
ToDecimal(b) == LET d == ToDecimalFrom(b, <<>>) IN IF d = <<>> THEN <<0>> ELSE d
RECURSIVE Halve(_, _)              \* ds div 2, processed from the most significant digit
Halve(ds, rem) == IF ds = <<>> THEN <<>> ELSE LET v == 10 * rem + Head(ds) IN <<v \div 2>> \o Halve(Tail(ds), v % 2)
AllZero(ds) == \A i \in DOMAIN ds : ds[i] = 0
RECURSIVE FromDecimalAcc(_, _)
FromDecimalAcc(ds, acc) == IF AllZero(ds) THEN acc ELSE FromDecimalAcc(Halve(ds, 0), <<ds[Len(ds)] % 2>> \o acc)
FromDecimal(ds) == CanonBits(FromDecimalAcc(ds, <<>>))
DecChars(ds) == [i \in DOMAIN ds |-> HexChars[ds[i] + 1]]

PrintBase(b, base) == IF base = 10 THEN DecChars(ToDecimal(CanonBits(b))) ELSE PrintPow2(b, base)
ReadBase(ds, base) == IF base = 10 THEN FromDecimal([i \in DOMAIN ds |-> DigitVal(ds[i])]) ELSE ReadPow2(ds, base)

\* n + 1
RECURSIVE IncRev(_)
Inc(b) ==
  LET RECURSIVE Go(_)
      Go(x) == IF x = <<>> THEN <<1>>
               ELSE IF x[Len(x)] = 0 THEN SubSeq(x, 1, Len(x) - 1) \o <<1>>
               ELSE Go(SubSeq(x, 1, Len(x) - 1)) \o <<0>>
  IN  CanonBits(Go(b))
IncRev(b) == Inc(b)
RECURSIVE AddSmall(_, _)
AddSmall(b, k) == IF k = 0 THEN CanonBits(b) ELSE AddSmall(Inc(b), k - 1)

\* [k |-> "int", bits, base]: the plain number with that value; base = 0: no statement about how it prints
IntVal(b, base) == [k |-> "int", bits |-> CanonBits(b), base |-> base]
\* N with fraction quarters q in {0, 1, 3} (x.00, x.25, x.75; ties are not used) rounded to the nearest integer
RoundQ(b, q) == IF q = 3 THEN Inc(b) ELSE CanonBits(b)
=============================================================================
