--------------------------------- MODULE Env ---------------------------------
(***************************************************************************)
(* C03.  Bindings of a session and the substitution of names.               *)
(*                                                                         *)
(* A name is a non-empty sequence of lower-case words (letter case is a     *)
(* rendering attribute: names are case-insensitive).  An environment is a   *)
(* sequence of bindings [name |-> <<w1, ...>>, v |-> value], at most one    *)
(* per name.  A binding holds a *value*: nothing in it refers to other      *)
(* bindings, so later re-assignments cannot change it.                      *)
(*                                                                         *)
(* A "use" expression is an arithmetic token list (Arith.tla) in which an   *)
(* operand may be  [k |-> "words", ws |-> <<w1, ...>>] : a run of words.    *)
(* Words are resolved left to right, at each position the longest bound     *)
(* name wins.                                                               *)
(***************************************************************************)
EXTENDS Arith

EmptyEnv == <<>>

Bound(env, name) == \E i \in DOMAIN env : env[i].name = name
Lookup(env, name) == LET i == CHOOSE i \in DOMAIN env : env[i].name = name IN env[i].v
Bind(env, name, v) ==
  IF Bound(env, name)
  THEN [i \in DOMAIN env |-> IF env[i].name = name THEN [name |-> name, v |-> v] ELSE env[i]]
  ELSE Append(env, [name |-> name, v |-> v])

\* length of the longest bound name that is a prefix of ws (0 if none)
RECURSIVE LongestFrom(_, _, _)
LongestFrom(env, ws, n) ==
  IF n = 0 THEN 0
  ELSE IF Bound(env, SubSeq(ws, 1, n)) THEN n ELSE LongestFrom(env, ws, n - 1)

\* a run of words -> sequence of values; from the first word that starts no bound name on, the run is
\* unspecified (a single Unspec marks it)
RECURSIVE Resolve(_, _)
Resolve(env, ws) ==
  IF ws = <<>> THEN <<>>
  ELSE LET n == LongestFrom(env, ws, Len(ws)) IN
       IF n = 0 THEN <<Unspec>>
       ELSE <<Lookup(env, SubSeq(ws, 1, n))>> \o Resolve(env, SubSeq(ws, n + 1, Len(ws)))

\* replace every words token by the value tokens it denotes
RECURSIVE Subst(_, _)
Subst(env, toks) ==
  IF toks = <<>> THEN <<>>
  ELSE LET t == Head(toks) IN
       IF t.k = "words"
       THEN [i \in 1..Len(Resolve(env, t.ws)) |-> [k |-> "val", v |-> Resolve(env, t.ws)[i]]] \o Subst(env, Tail(toks))
       ELSE <<t>> \o Subst(env, Tail(toks))

AllNumeric(toks) == \A i \in DOMAIN toks : toks[i].k = "val" => toks[i].v.k = "num"
AnyUnspec(toks)  == \E i \in DOMAIN toks : toks[i].k = "val" /\ toks[i].v.k = "unspec"
AsNumTok(t) == IF t.k = "val" THEN [k |-> "num", q |-> t.v.q] ELSE t

\* meaning of a use expression; Mixed(s) gives the meaning of an expression over values that are not all plain numbers
\* (defined in Meaning.tla, where the arithmetic of the other kinds is known)
UseMeaningWith(env, toks, Mixed(_)) ==
  LET s == Subst(env, toks) IN
  IF AnyUnspec(s) THEN Unspec
  ELSE IF Len(s) = 1 /\ s[1].k = "val" THEN s[1].v                      \* a bare name: the value, of any kind
  ELSE IF AllNumeric(s) THEN
         LET n == [i \in DOMAIN s |-> AsNumTok(s[i])]
             r == ArithLine(n)
         IN  IF r.ok THEN Num(r.v) ELSE Unspec
  ELSE Mixed(s)
NoMixed(s) == Unspec
UseMeaning(env, toks) == UseMeaningWith(env, toks, NoMixed)
=============================================================================
