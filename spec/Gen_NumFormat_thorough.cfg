CONSTANT MaxFrac = 4
INIT Init
NEXT Next
INVARIANT Emit
CHECK_DEADLOCK FALSE
