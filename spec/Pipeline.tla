------------------------------ MODULE Pipeline ------------------------------
(***************************************************************************)
(* The implementation-shaped layer (DESIGN 4.1): the rule-rewriting engine  *)
(* of the tokenizer as a state machine.  It follows the code                *)
(* (src/tokinizer/rule_tokinizer/mod.rs), not the properties:               *)
(*                                                                         *)
(*   toks    the active typed tokens of the line, left to right             *)
(*   Rules   the rule list in the order the engine tries it: the built-in   *)
(*           rules in the order of their names, then the date rule, then    *)
(*           the rules registered through the API; each rule has a list of  *)
(*           patterns, a pattern is a sequence of matchers                  *)
(*                                                                         *)
(* One step: the first rule (in list order) one of whose patterns (in list  *)
(* order) matches, and whose function accepts the matched tokens, replaces  *)
(* the matched tokens by the one token the function returns; then the rules *)
(* are tried in order again on the rewritten line ("restart" schedule, the  *)
(* repaired engine).  The pinned engine instead continued with the *later*  *)
(* rules in the same round ("round" schedule) - kept here as a second       *)
(* schedule so that TLC exhibits, on the model alone, the lines on which    *)
(* the two differ.                                                          *)
(*                                                                         *)
(* The scanner is the code's left-to-right scan without backtracking: when  *)
(* a partial match fails at a token, that token is skipped - it is not      *)
(* retried as the start of a new match.                                     *)
(*                                                                         *)
(* A token is [k |-> kind, w |-> word] (w = "" unless k = "TEXT" or         *)
(* "OPERATOR"); a matcher is                                                *)
(*   [m |-> "kind",  ks |-> set of kinds]      {NUMBER:x}, {NUMBER_OR_MONEY:x} *)
(*   [m |-> "word",  ws |-> set of words]      a literal word, {TEXT:x:word},  *)
(*                                             {GROUP:x:group}                 *)
(*   [m |-> "op",    c  |-> character]         a literal operator              *)
(***************************************************************************)
EXTENDS Naturals, Sequences, FiniteSets, TLC

CONSTANTS Rules,      \* sequence of [name, pats, out]; out = result kind, or "same" (the kind of the first matched token)
          Schedule,   \* "restart" or "round"
          CurrencyWords  \* words that name a currency (the function of convert_money refuses any other target word)

\* the rule table arrives as JSON (ks / ws are sequences there)
Rng(s) == {s[i] : i \in DOMAIN s}
Matches(mt, tok) ==
  CASE mt.m = "kind" -> tok.k \in Rng(mt.ks)
    [] mt.m = "word" -> tok.k = "TEXT" /\ tok.w \in Rng(mt.ws)
    [] mt.m = "op"   -> tok.k = "OPERATOR" /\ tok.w = mt.c

(* the code's scanner: returns [found, start, end): tokens start+1 .. end are the match *)
RECURSIVE ScanFrom(_, _, _, _, _)
ScanFrom(pat, ts, ti, pi, start) ==
  \* ti: next token to look at (1-based), pi: number of matchers already matched, start: index before the match
  IF pi = Len(pat) THEN [found |-> TRUE, start |-> start, end |-> ti - 1]
  ELSE IF ti > Len(ts) THEN [found |-> FALSE, start |-> 0, end |-> 0]
  ELSE IF Matches(pat[pi + 1], ts[ti]) THEN ScanFrom(pat, ts, ti + 1, pi + 1, start)
  ELSE ScanFrom(pat, ts, ti + 1, 0, ti)          \* the failing token is skipped
Scan(pat, ts) == ScanFrom(pat, ts, 1, 0, 0)

\* "same": the kind of the first matched token; "same_operand": of the number-or-money operand among the matched tokens
OutKind(rule, ts, sc) ==
  CASE rule.out = "same" -> ts[sc.start + 1].k
    [] rule.out = "same_operand" ->
         LET S == {i \in (sc.start + 1)..sc.end : ts[i].k \in {"NUMBER", "MONEY"}} IN
         IF S = {} THEN "NUMBER" ELSE ts[CHOOSE i \in S : \A j \in S : i <= j].k
    [] OTHER -> rule.out
Rewrite(rule, ts, sc) ==
  SubSeq(ts, 1, sc.start) \o <<[k |-> OutKind(rule, ts, sc), w |-> ""]>> \o SubSeq(ts, sc.end + 1, Len(ts))

\* a rule's function may refuse the tokens its pattern matched; the engine then goes on with the next pattern / rule.
\* Modelled where it decides between rules: convert_money needs a currency word as its target.
Accepts(rule, ts, sc) ==
  IF rule.name = "convert_money" THEN ts[sc.end].k = "TEXT" /\ ts[sc.end].w \in CurrencyWords ELSE TRUE

\* first matching pattern of a rule whose function accepts (0 if none)
FirstPat(rule, ts) ==
  LET S == {p \in DOMAIN rule.pats : Scan(rule.pats[p], ts).found /\ Accepts(rule, ts, Scan(rule.pats[p], ts))} IN
  IF S = {} THEN 0 ELSE CHOOSE p \in S : \A q \in S : p <= q
Enabled(r, ts) == FirstPat(Rules[r], ts) # 0
Apply(r, ts) == LET rule == Rules[r] IN Rewrite(rule, ts, Scan(rule.pats[FirstPat(rule, ts)], ts))

VARIABLES toks,   \* current tokens
          cur,    \* "round" schedule: index of the next rule to try in this round (1 .. Len(Rules) + 1)
          dirty,  \* "round" schedule: did this round rewrite anything
          done,
          log     \* sequence of applied rule names (history)
pvars == <<toks, cur, dirty, done, log>>

PInit(ts) == toks = ts /\ cur = 1 /\ dirty = FALSE /\ done = FALSE /\ log = <<>>

FirstEnabled(ts) ==
  LET S == {r \in DOMAIN Rules : Enabled(r, ts)} IN IF S = {} THEN 0 ELSE CHOOSE r \in S : \A q \in S : r <= q

StepRestart ==
  /\ ~done
  /\ LET r == FirstEnabled(toks) IN
       IF r = 0 THEN done' = TRUE /\ UNCHANGED <<toks, cur, dirty, log>>
       ELSE toks' = Apply(r, toks) /\ log' = Append(log, Rules[r].name) /\ UNCHANGED <<cur, dirty, done>>

StepRound ==
  /\ ~done
  /\ IF cur > Len(Rules)
     THEN IF dirty THEN cur' = 1 /\ dirty' = FALSE /\ UNCHANGED <<toks, done, log>>
          ELSE done' = TRUE /\ UNCHANGED <<toks, cur, dirty, log>>
     ELSE IF Enabled(cur, toks)
          THEN toks' = Apply(cur, toks) /\ log' = Append(log, Rules[cur].name) /\ dirty' = TRUE /\ cur' = cur + 1 /\ UNCHANGED done
          ELSE cur' = cur + 1 /\ UNCHANGED <<toks, dirty, done, log>>

PNext == IF Schedule = "restart" THEN StepRestart ELSE StepRound

(* ---- the two schedules as functions (normal form and applied rules), for comparison --------------------- *)
RECURSIVE NFRestart(_, _)
NFRestart(ts, lg) ==
  LET r == FirstEnabled(ts) IN IF r = 0 THEN [toks |-> ts, log |-> lg] ELSE NFRestart(Apply(r, ts), Append(lg, Rules[r].name))
RECURSIVE RoundPass(_, _, _, _), NFRound(_, _)
RoundPass(ts, lg, r, changed) ==       \* one round: every rule at most once, later rules see the rewritten line
  IF r > Len(Rules) THEN [toks |-> ts, log |-> lg, changed |-> changed]
  ELSE IF Enabled(r, ts) THEN RoundPass(Apply(r, ts), Append(lg, Rules[r].name), r + 1, TRUE)
  ELSE RoundPass(ts, lg, r + 1, changed)
NFRound(ts, lg) == LET p == RoundPass(ts, lg, 1, FALSE) IN IF p.changed THEN NFRound(p.toks, p.log) ELSE [toks |-> ts, log |-> lg]

(* ---- design-level properties ------------------------------------------ *)
\* every pattern has at least two matchers, so every rewrite shortens the line: the engine terminates
PatternsShrink == \A r \in DOMAIN Rules : \A p \in DOMAIN Rules[r].pats : Len(Rules[r].pats[p]) >= 2
Shrinks == [][toks' # toks => Len(toks') < Len(toks)]_pvars
Terminates == <>done
\* when the engine stops no rule is enabled any more
Fixpoint == done => FirstEnabled(toks) = 0
=============================================================================
