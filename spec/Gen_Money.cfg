CONSTANT MaxDepth = 3
INIT GInit
NEXT GNext
INVARIANT Emit
INVARIANT RateFrameInv
PROPERTY EvalFramesCalc
CHECK_DEADLOCK FALSE
