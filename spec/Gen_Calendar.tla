---------------------------- MODULE Gen_Calendar ----------------------------
(***************************************************************************)
(* C09 generator.  Dates over boundary years, all months, the days 1, 15,   *)
(* 28..31 where valid; shifts by day / week / month / year counts on and    *)
(* around the unit boundaries in both directions; differences over a        *)
(* 40 x 40 subset; impossible dates; the day keywords; dates without a year *)
(* (the current year is meant).  "today" comes from the driver (the real    *)
(* date, or the date the clock shim pretends).                              *)
(***************************************************************************)
EXTENDS Meaning, Json, IOUtils
CONSTANT Big

Consts == JsonDeserialize(IOEnv.CONSTS)
Today == Consts.today          \* days since 1970-01-01
Mode  == Consts.mode           \* "full": everything; "today": only the lines whose meaning depends on today
ThisYear == YearOfDay(Today)

C(y, m, d) == [y |-> y, m |-> m, d |-> d]
Years == {1, 1900, 1999, 2000, 2019, 2020, 2021, 2024, ThisYear, 9999}
Days == {1, 15, 28, 29, 30, 31}
Dates == {C(y, m, d) : y \in Years, m \in 1..12, d \in Days} 
ValidDates == {c \in Dates : ValidCivil(c.y, c.m, c.d)}
NoYear == {C(0, m, d) : m \in 1..12, d \in {1, 15, 28, 29, 30, 31}}
ValidNoYear == {c \in NoYear : ValidCivil(ThisYear, c.m, c.d)}
Rel == {[rel |-> r] : r \in {-1, 0, 1}}
Invalid == {C(2019, 2, 29), C(2020, 2, 30), C(1900, 2, 29), C(2021, 4, 31), C(2021, 6, 31), C(2021, 9, 31), C(2021, 11, 31),
            C(2020, 13, 1), C(2020, 1, 32), C(2021, 2, 29), C(2100, 2, 29)}
        \cup {c \in NoYear : ~ValidCivil(ThisYear, c.m, c.d)}

ShiftBase == {c \in ValidDates : c.y \in (IF Big THEN {1900, 1999, 2000, 2019, 2020, 2021, 2024} ELSE {1999, 2000, 2019, 2020}) /\ c.d \in {1, 28, 29, 30, 31}}
Offsets == {<<n, "day">> : n \in {0, 1, 7, 29, 30, 31, 365, 366}} \cup {<<n, "week">> : n \in {1, 3, 5, 52}}
      \cup {<<n, "month">> : n \in {1, 2, 11, 12, 13, 14, 24}} \cup {<<n, "year">> : n \in {1, 4, 32, 100}}
DiffSet == {c \in ValidDates : c.d \in {1, 29, 31} /\ c.m \in {1, 2, 3, 12} /\ c.y \in {1, 1999, 2000, 2020, 9999}}

DependsOnToday ==
       {[form |-> "date_lit", a |-> a] : a \in ValidNoYear \cup Rel \cup {c \in Invalid : c.y = 0}}
  \cup {[form |-> "date_shift", a |-> a, op |-> o, n |-> f[1], u |-> f[2]] :
            a \in Rel \cup {c \in ValidNoYear : c.d \in {1, 28} /\ c.m \in {1, 2, 12}}, o \in {"+", "-"}, f \in {<<1, "day">>, <<3, "week">>, <<1, "month">>, <<2, "year">>}}
  \cup {[form |-> "date_diff", a |-> a, b |-> b] : a \in Rel, b \in Rel \cup {C(2020, 2, 29)}}
Independent ==
       {[form |-> "date_lit", a |-> a] : a \in ValidDates \cup {c \in Invalid : c.y # 0}}
  \cup {[form |-> "date_shift", a |-> a, op |-> o, n |-> f[1], u |-> f[2]] : a \in ShiftBase, o \in {"+", "-"}, f \in Offsets}
  \cup {[form |-> "date_diff", a |-> a, b |-> b] : a \in DiffSet, b \in DiffSet}
Lines == IF Mode = "full" THEN DependsOnToday \cup Independent ELSE DependsOnToday

VARIABLE line
Init == line \in Lines
Next == UNCHANGED line
Ctx0 == [calc |-> DefaultCalc, lang |-> "en", today |-> Today, env |-> EmptyEnv]
Civ(v) == IF v.k = "date" THEN v @@ [civil |-> CivilFromDays(v.day), cury |-> ThisYear] ELSE WithPrint(v)
Emit == PrintT(<<"CASE", ToJson([line |-> line, expected |-> Civ(LineMeaning(Ctx0, line).slot)])>>)
=============================================================================
