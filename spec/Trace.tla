------------------------------- MODULE Trace -------------------------------
(***************************************************************************)
(* Trace validation (DESIGN 5c): a recorded execution of the real library   *)
(* must be a behaviour of SmartCalc.tla with exactly the recorded           *)
(* observations.  One ndjson event per public call, arguments in abstract   *)
(* form, observation projected into the value domain.  A mismatching event  *)
(* does not block: its index goes into "bad" (and is printed together with  *)
(* what the specification expected), so that one run reports all            *)
(* disagreements.  An event the trace specification cannot even interpret   *)
(* stops the run short of the end: the postcondition then fails and the     *)
(* driver reports a tool error.                                             *)
(***************************************************************************)
EXTENDS SmartCalc, Json, IOUtils, Sequences

Rec == ndJsonDeserialize(IOEnv.TRACE)

VARIABLES l, bad, parked
tvars == <<vars, l, bad, parked>>
\* parked: the other calculators alive in the process, id -> [calc, sess].  A process with several calculators is the
\* interleaving of independent copies of SmartCalc.tla: no variable is shared, a call acts on the one calculator it is
\* made on ("switch" says which one the next calls go to) and the parked ones do not change.

(***************************************************************************)
(* Observation-aware evaluation of the lines of one call: like RunLines,    *)
(* but after each line the bindings follow what was observed where the      *)
(* specification leaves a choice or where the code disagreed:               *)
(*  - a line expected to fail: an observed error keeps the bindings (C03);  *)
(*    if it did not fail, the name it may have bound becomes unspecified;   *)
(*  - an assignment whose observed value disagrees is reported and the      *)
(*    name is re-synchronised on the observed value, so that one wrong      *)
(*    line is reported once and not again at every later use.               *)
(***************************************************************************)
NameOf(line) == IF line.form = "assign" THEN line.name ELSE IF "name" \in DOMAIN line THEN line.name ELSE <<>>
ExpectedToFail(line) == line.form = "fail" \/ (line.form = "assign" /\ line.rhs.form = "fail")

EnvAfter(ctx, line, m, o) ==
  LET n == NameOf(line) IN
  IF ExpectedToFail(line)
  THEN IF o.k = "err" \/ n = <<>> THEN ctx.env ELSE Bind(ctx.env, n, Unspec)
  ELSE IF line.form = "assign" /\ ~SlotMatchesCtx(ctx, m.slot, o)
  THEN Bind(ctx.env, n, OfObs(o))
  ELSE m.env

RECURSIVE RunObs(_, _, _, _, _)
RunObs(ctx, lines, obs, ok, exp) ==
  IF lines = <<>> \/ obs = <<>> THEN [ok |-> ok /\ lines = <<>> /\ obs = <<>>, env |-> ctx.env, exp |-> exp]
  ELSE LET m == LineMeaning(ctx, Head(lines))
           o == Head(obs)
       IN  RunObs([ctx EXCEPT !.env = EnvAfter(ctx, Head(lines), m, o)], Tail(lines), Tail(obs),
                  ok /\ SlotMatchesCtx(ctx, m.slot, o), Append(exp, m.slot))

\* return values travel as the strings "true" / "false" (a call that panicked is recorded as "panic")
B(x) == IF x THEN "true" ELSE "false"
Report(i, exp) == PrintT(<<"BAD", ToJson([l |-> i, expected |-> exp])>>)

CalcOf(c) ==
  [DefaultCalc EXCEPT !.dec = c.dec, !.tho = c.tho,
                      !.num = [d |-> c.num[1], remove |-> c.num[2], round |-> c.num[3]],
                      !.pct = [d |-> c.pct[1], remove |-> c.pct[2], round |-> c.pct[3]],
                      !.mon = [remove |-> c.mon[1], round |-> c.mon[2]],
                      !.tz = c.tz]

PrintableKinds == {"num", "pct", "money", "dur", "time", "date", "unit"}     \* the kinds C15 lists (a based integer is a num)
Sep(x) == IF x = "" THEN <<>> ELSE <<x>>
\* the format setting that applies to a value of the event's kind: numbers and percentages have their own settings,
\* money takes the currency's digit count, a unit quantity its item's settings
FormatOf(e) ==
  LET base == CASE e.kind = "num"   -> calc.num
                [] e.kind = "pct"   -> calc.pct
                [] e.kind = "money" -> [d |-> e.digits, remove |-> calc.mon.remove, round |-> calc.mon.round]
                \* a configured unit prints with 2 digits, rounding and removal; a user-defined one with the settings it was registered with
                [] e.kind = "unit"  -> IF "uf" \in DOMAIN e THEN [d |-> e.uf.d, remove |-> e.uf.remove, round |-> e.uf.round]
                                       ELSE [d |-> e.digits, remove |-> TRUE, round |-> TRUE]
      \* a separator of several characters is handed over character by character (TLC cannot take a string apart)
  IN  [d |-> base.d, remove |-> base.remove, round |-> base.round, dec |-> Sep(calc.dec), tho |-> IF "tho_seq" \in DOMAIN e THEN e.tho_seq ELSE Sep(calc.tho)]
Judge(ok, exp) == bad' = IF ok THEN bad ELSE IF Report(l, exp) THEN bad \cup {l} ELSE bad

TInit == /\ calc = DefaultCalc /\ sess = <<>> /\ run = NoRun /\ today = 0 /\ last = [call |-> "none"]
         /\ l = 1 /\ bad = {} /\ parked = <<>>

TNext ==
  /\ l <= Len(Rec)
  /\ l' = l + 1
  /\ LET e == Rec[l] IN
       CASE e.ev = "switch" ->
              \* the next calls go to calculator e.to; the one used so far (e.from) is parked as it is
              /\ e.to \in DOMAIN parked /\ e.from \notin DOMAIN parked
              /\ calc' = parked[e.to].calc /\ sess' = parked[e.to].sess
              /\ run' = NoRun /\ today' = today /\ last' = [call |-> "switch"] /\ bad' = bad
         [] e.ev = "reset" ->
              \* a fresh calculator configured through the setters; the driver's day
              /\ calc' = (IF "alias" \in DOMAIN e THEN [CalcOf(e.cfg) EXCEPT !.alias = e.alias, !.codes = {e.codes[i] : i \in DOMAIN e.codes}]
                          ELSE IF "zones" \in DOMAIN e THEN [CalcOf(e.cfg) EXCEPT !.zones = e.zones]
                          ELSE CalcOf(e.cfg))
              /\ sess' = <<>> /\ today' = e.today /\ run' = NoRun
              /\ last' = [call |-> "reset"] /\ bad' = bad
         [] e.ev = "execute" ->
              \* a behaviour of Execute: calc and sess unchanged; the slots are judged line by line
              /\ LET r == RunObs(Ctx(e.lang, EmptyEnv), e.lines, e.obs, TRUE, <<>>)
                 IN  /\ Judge(e.status = TRUE /\ r.ok, r.exp)
                     /\ last' = [call |-> "execute", status |-> e.status, slots |-> r.exp]
              /\ UNCHANGED <<calc, sess, run, today>>
         [] e.ev = "update_currency" ->
              /\ UpdateCurrency(e.cur, e.rate)
              /\ Judge(e.ret = B(Canon(calc, e.cur) # "none"), <<[k |-> "ret", v |-> Canon(calc, e.cur) # "none"]>>)
         [] e.ev = "add_rule" ->
              /\ AddRule(e.lang, e.name, {e.pats[i] : i \in DOMAIN e.pats}, e.beh)
              /\ Judge(e.ret = B(AddRuleRet(e.lang)), <<[k |-> "ret", v |-> AddRuleRet(e.lang)]>>)
         [] e.ev = "delete_rule" ->
              /\ DeleteRule(e.lang, e.name)
              /\ Judge(e.ret = B(HasRule(calc, e.lang, e.name)), <<[k |-> "ret", v |-> HasRule(calc, e.lang, e.name)]>>)
         [] e.ev = "add_type" ->
              /\ AddFamily(e.name)
              /\ Judge(e.ret = B(~HasFam(calc, e.name)), <<[k |-> "ret", v |-> ~HasFam(calc, e.name)]>>)
         [] e.ev = "add_type_item" ->
              /\ AddItem(e.fam, [idx |-> e.idx, up |-> e.up, down |-> e.down])
              /\ Judge(e.ret = B(AddItemOk(calc, e.fam, e.idx)), <<[k |-> "ret", v |-> AddItemOk(calc, e.fam, e.idx)]>>)
         [] e.ev = "format" ->
              \* the printed form of a value of kind e.kind under the calculator's current format settings (C07)
              /\ LET allowed == Printed(e.kind, e.v, FormatOf(e), e.deco) IN Judge(e.out \in allowed, <<[k |-> "format", allowed |-> allowed]>>)
              /\ last' = [call |-> "format"] /\ UNCHANGED <<calc, sess, run, today>>
         [] e.ev = "set_tz" ->
              /\ SetTimezone(e.w)
              /\ LET z == ZoneOfSpelling(e.w) IN
                   Judge(e.ret = B(z.ok) /\ (z.ok => (e.name = z.name /\ e.off = z.off)), <<[k |-> "set_tz", ok |-> z.ok, name |-> z.name, off |-> z.off]>>)
         \* set_date_rule with the language's own date patterns: not a registration or deletion of a custom rule - nothing changes
         [] e.ev = "set_date_rule" -> UNCHANGED <<calc, sess, run, today, last>> /\ bad' = bad
         [] e.ev = "set_dec" -> SetDecimalSep(e.v) /\ bad' = bad
         [] e.ev = "set_tho" -> SetThousandSep(e.v) /\ bad' = bad
         [] e.ev = "set_num" -> SetNumberCfg([d |-> e.d, remove |-> e.remove, round |-> e.round]) /\ bad' = bad
         [] e.ev = "set_pct" -> SetPercentCfg([d |-> e.d, remove |-> e.remove, round |-> e.round]) /\ bad' = bad
         [] e.ev = "set_mon" -> SetMoneyCfg([remove |-> e.remove, round |-> e.round]) /\ bad' = bad
         [] e.ev = "roundtrip" ->
              \* C15: the printed form of a result, entered as a new line under the same configuration and language,
              \* evaluates to a value of the same kind that prints the same again
              /\ Judge(e.kind \in PrintableKinds /\ e.kind2 = e.kind /\ e.out2 = e.out1, <<[k |-> e.kind, out |-> e.out1]>>)
              /\ last' = [call |-> "roundtrip"] /\ UNCHANGED <<calc, sess, run, today>>
         [] e.ev = "ui" ->
              \* C17: the highlight tokens of one evaluated line (n characters; lex = spans the renderer wrote)
              /\ Judge(UiOk(e.n, e.toks, e.lex), <<[k |-> "ui", defects |-> UiDefects(e.n, e.toks, e.lex)]>>)
              /\ last' = [call |-> "ui"] /\ UNCHANGED <<calc, sess, run, today>>
         [] e.ev = "session_new" -> NewSession(e.s) /\ bad' = bad
         [] e.ev = "set_language" -> SetLanguage(e.s, e.lang) /\ bad' = bad
         [] e.ev = "set_text" -> SetText(e.s, e.lines) /\ bad' = bad
         [] e.ev = "execute_session" ->
              /\ e.s \in DOMAIN sess /\ sess[e.s].fresh
              /\ LET r == RunObs(Ctx(sess[e.s].lang, sess[e.s].env), sess[e.s].lines, e.obs, TRUE, <<>>)
                 IN  /\ Judge(e.status = TRUE /\ r.ok, r.exp)
                     /\ last' = [call |-> "execute_session", status |-> e.status, slots |-> r.exp]
                     /\ sess' = [sess EXCEPT ![e.s].env = r.env, ![e.s].fresh = FALSE]
              /\ UNCHANGED <<calc, run, today>>

\* a reset with "two" starts the process with a second, identically configured fresh calculator (id 2) parked
TParked ==
  LET e == Rec[l] IN
  parked' = CASE e.ev = "reset"  -> (IF "two" \in DOMAIN e THEN (2 :> [calc |-> calc', sess |-> <<>>]) ELSE <<>>)
              [] e.ev = "switch" -> [x \in (DOMAIN parked \ {e.to}) \cup {e.from} |-> IF x = e.from THEN [calc |-> calc, sess |-> sess] ELSE parked[x]]
              [] OTHER -> parked

TSpec == TInit /\ [][TNext /\ TParked]_tvars

Accepted ==
  IF TLCGet("stats").diameter = Len(Rec) + 1 THEN TRUE
  ELSE PrintT(<<"INFO", ToJson([stuck_at |-> TLCGet("stats").diameter, of |-> Len(Rec)])>>) /\ FALSE
=============================================================================
