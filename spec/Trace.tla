------------------------------- MODULE Trace -------------------------------
(***************************************************************************)
(* Trace validation (DESIGN 5c): a recorded execution of the real library   *)
(* must be a behaviour of SmartCalc.tla with exactly the recorded           *)
(* observations.  One ndjson event per public call, arguments in abstract   *)
(* form, observation projected into the value domain.  A mismatching event  *)
(* does not block: its index goes into "bad" (and is printed together with  *)
(* what the specification expected), so that one run reports all            *)
(* disagreements.  An event the trace specification cannot even interpret   *)
(* stops the run short of the end: the postcondition then fails and the     *)
(* driver reports a tool error.                                             *)
(***************************************************************************)
EXTENDS SmartCalc, Json, IOUtils, Sequences

Rec == ndJsonDeserialize(IOEnv.TRACE)

VARIABLES l, bad
tvars == <<vars, l, bad>>

RECURSIVE SlotsMatch(_, _)
SlotsMatch(exp, obs) ==
  IF Len(exp) # Len(obs) THEN FALSE
  ELSE IF exp = <<>> THEN TRUE
  ELSE Matches(Head(exp), Head(obs)) /\ SlotsMatch(Tail(exp), Tail(obs))

Report(i, exp) == PrintT(<<"BAD", ToJson([l |-> i, expected |-> exp])>>)

CalcOf(c) ==
  [DefaultCalc EXCEPT !.dec = c.dec, !.tho = c.tho,
                      !.num = [d |-> c.num[1], remove |-> c.num[2], round |-> c.num[3]],
                      !.pct = [d |-> c.pct[1], remove |-> c.pct[2], round |-> c.pct[3]],
                      !.mon = [remove |-> c.mon[1], round |-> c.mon[2]],
                      !.tz = c.tz]

Judge(ok, exp) == bad' = IF ok THEN bad ELSE IF Report(l, exp) THEN bad \cup {l} ELSE bad

TInit == /\ calc = DefaultCalc /\ sess = <<>> /\ today = 0 /\ last = [call |-> "none"]
         /\ l = 1 /\ bad = {}

TNext ==
  /\ l <= Len(Rec)
  /\ l' = l + 1
  /\ LET e == Rec[l] IN
       CASE e.ev = "reset" ->
              \* a fresh calculator configured through the setters; the driver's day
              /\ calc' = CalcOf(e.cfg) /\ sess' = <<>> /\ today' = e.today
              /\ last' = [call |-> "reset"] /\ bad' = bad
         [] e.ev = "execute" ->
              /\ Execute(e.lang, e.lines)
              /\ Judge(e.status = TRUE /\ SlotsMatch(last'.slots, e.obs), last'.slots)
         [] e.ev = "session_new" -> NewSession(e.s) /\ bad' = bad
         [] e.ev = "set_language" -> SetLanguage(e.s, e.lang) /\ bad' = bad
         [] e.ev = "set_text" -> SetText(e.s, e.lines) /\ bad' = bad
         [] e.ev = "execute_session" ->
              /\ ExecSession(e.s)
              /\ Judge(e.status = TRUE /\ SlotsMatch(last'.slots, e.obs), last'.slots)

TSpec == TInit /\ [][TNext]_tvars

Accepted ==
  IF TLCGet("stats").diameter = Len(Rec) + 1 THEN TRUE
  ELSE PrintT(<<"INFO", ToJson([stuck_at |-> TLCGet("stats").diameter, of |-> Len(Rec)])>>) /\ FALSE
=============================================================================
