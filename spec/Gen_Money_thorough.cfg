CONSTANT MaxDepth = 4
INIT GInit
NEXT GNext
INVARIANT Emit
INVARIANT RateFrameInv
PROPERTY EvalFramesCalc
CHECK_DEADLOCK FALSE
