---- MODULE Claims_TTrace_1790818963 ----
EXTENDS Sequences, TLCExt, Claims, Toolbox, Naturals, TLC

_expression ==
    LET Claims_TEExpression == INSTANCE Claims_TEExpression
    IN Claims_TEExpression!expression
----

_trace ==
    LET Claims_TETrace == INSTANCE Claims_TETrace
    IN Claims_TETrace!trace
----

_inv ==
    ~(
        TLCGet("level") = Len(_TETrace)
        /\
        granted = ({<<0, 3>>, <<1, 2>>})
    )
----

_init ==
    /\ granted = _TETrace[1].granted
----

_next ==
    /\ \E i,j \in DOMAIN _TETrace:
        /\ \/ /\ j = i + 1
              /\ i = TLCGet("level")
        /\ granted  = _TETrace[i].granted
        /\ granted' = _TETrace[j].granted

\* Uncomment the ASSUME below to write the states of the error trace
\* to the given file in Json format. Note that you can pass any tuple
\* to `JsonSerialize`. For example, a sub-sequence of _TETrace.
    \* ASSUME
    \*     LET J == INSTANCE Json
    \*         IN J!JsonSerialize("Claims_TTrace_1790818963.json", _TETrace)

=============================================================================

 Note that you can extract this module `Claims_TEExpression`
  to a dedicated file to reuse `expression` (the module in the 
  dedicated `Claims_TEExpression.tla` file takes precedence 
  over the module `Claims_TEExpression` below).

---- MODULE Claims_TEExpression ----
EXTENDS Sequences, TLCExt, Claims, Toolbox, Naturals, TLC

expression == 
    [
        \* To hide variables of the `Claims` spec from the error trace,
        \* remove the variables below.  The trace will be written in the order
        \* of the fields of this record.
        granted |-> granted
        
        \* Put additional constant-, state-, and action-level expressions here:
        \* ,_stateNumber |-> _TEPosition
        \* ,_grantedUnchanged |-> granted = granted'
        
        \* Format the `granted` variable as Json value.
        \* ,_grantedJson |->
        \*     LET J == INSTANCE Json
        \*     IN J!ToJson(granted)
        
        \* Lastly, you may build expressions over arbitrary sets of states by
        \* leveraging the _TETrace operator.  For example, this is how to
        \* count the number of times a spec variable changed up to the current
        \* state in the trace.
        \* ,_grantedModCount |->
        \*     LET F[s \in DOMAIN _TETrace] ==
        \*         IF s = 1 THEN 0
        \*         ELSE IF _TETrace[s].granted # _TETrace[s-1].granted
        \*             THEN 1 + F[s-1] ELSE F[s-1]
        \*     IN F[_TEPosition - 1]
    ]

=============================================================================



Parsing and semantic processing can take forever if the trace below is long.
 In this case, it is advised to uncomment the module below to deserialize the
 trace from a generated binary file.

\*
\*---- MODULE Claims_TETrace ----
\*EXTENDS IOUtils, Claims, TLC
\*
\*trace == IODeserialize("Claims_TTrace_1790818963.bin", TRUE)
\*
\*=============================================================================
\*

---- MODULE Claims_TETrace ----
EXTENDS Claims, TLC

trace == 
    <<
    ([granted |-> {}]),
    ([granted |-> {<<1, 2>>}]),
    ([granted |-> {<<0, 3>>, <<1, 2>>}])
    >>
----


=============================================================================

---- CONFIG Claims_TTrace_1790818963 ----
CONSTANTS
    N = 4
    FullTest = FALSE

INVARIANT
    _inv

CHECK_DEADLOCK
    \* CHECK_DEADLOCK off because of PROPERTY or INVARIANT above.
    FALSE

INIT
    _init

NEXT
    _next

CONSTANT
    _TETrace <- _trace

ALIAS
    _expression
=============================================================================
\* Generated on Thu Oct 01 01:42:44 UTC 2026