------------------------------ MODULE Gen_Shape ------------------------------
(***************************************************************************)
(* C01 generator: every sequence of 1..MaxLen lexeme classes out of NClass  *)
(* (the alphabet of DESIGN Appendix F lives in the driver: one or more      *)
(* concrete strings per class).  The meaning of such a line is unspecified; *)
(* only C01 applies: evaluation returns, one slot per line, each slot an    *)
(* admissible kind, and a line evaluates to the same thing whatever other   *)
(* lines stand around it.                                                   *)
(***************************************************************************)
EXTENDS Sequences, Naturals, Json, TLC
CONSTANTS MaxLen, NClass
VARIABLE s
Init == s = <<>>
Next == Len(s) < MaxLen /\ \E c \in 1..NClass : s' = Append(s, c)
Emit == s = <<>> \/ PrintT(<<"CASE", ToJson([seq |-> s])>>)
=============================================================================
