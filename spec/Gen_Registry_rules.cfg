CONSTANT MaxDepth = 4
CONSTANT Which = "rules"
INIT GInit
NEXT GNext
INVARIANT Emit
INVARIANT RegistryIsReplay
INVARIANT RetsOk
INVARIANT DupRejected
PROPERTY EvalFramesCalc
CHECK_DEADLOCK FALSE
