-------------------------------- MODULE Kinds --------------------------------
(***************************************************************************)
(* The kind algebra of the interpreter:  A op B  for values of any two      *)
(* kinds.  The interpreter always asks the LEFT operand to compute          *)
(* (src/compiler/mod.rs calculate_item), so the result kind is a function   *)
(* of (kind of A, op, kind of B) and a pair the left kind does not know is  *)
(* the error "Unknown calculation".                                         *)
(*                                                                         *)
(* Some cells are fixed by a property (C02 number arithmetic, C05 X +- p%,  *)
(* C06 money, C09 date +- duration, C10 duration +-, C11 time +- duration,  *)
(* C12 quantities); Meaning.tla gives those their meaning and the checks    *)
(* of these properties gate on them.  ALL OTHER CELLS ARE DESCRIPTIVE: no   *)
(* property says what `$40 * 10 eur` or `10:30 + 13:00 EST` is; the         *)
(* operators below record what the pinned code does, so that the layer is   *)
(* a regression oracle ("drift") and never a violation of anything.         *)
(* Cell(..).by says which: "C.." or "descriptive".                          *)
(***************************************************************************)
EXTENDS Units

Kinds8 == {"num", "pct", "money", "dur", "time", "date", "datetime", "unit"}
Ops4   == {"+", "-", "*", "/"}

\* the result kind of  A op B  ("error" = the line is an error); uk: for two quantities, are they of one kind
ResultKind(lk, op, rk, uk) ==
  CASE lk = "num"   /\ rk \in {"num", "pct"}                  -> "num"
    [] lk = "pct"   /\ rk = "pct"                             -> "pct"
    [] lk = "money" /\ rk = "money"                           -> IF op = "/" THEN "num" ELSE "money"
    [] lk = "money" /\ rk \in {"num", "pct", "dur"}           -> "money"
    [] lk = "dur"   /\ rk = "dur" /\ op \in {"+", "-"}        -> "dur"
    [] lk = "time"  /\ rk \in {"dur", "time"} /\ op \in {"+", "-"} -> "time"
    [] lk \in {"date", "datetime"} /\ rk = "dur" /\ op \in {"+", "-"} -> lk
    [] lk = "unit"  /\ rk = "num"                             -> "unit"
    [] lk = "unit"  /\ rk = "pct"                             -> IF op = "/" THEN "num" ELSE "unit"
    [] lk = "unit"  /\ rk = "unit" /\ uk                      -> IF op = "/" THEN "num" ELSE "unit"
    [] OTHER                                                  -> "error"

\* which property, if any, fixes the cell
FixedBy(lk, op, rk) ==
  CASE lk = "num" /\ rk = "num"                               -> "C02"
    [] lk \in {"num", "money"} /\ rk = "pct" /\ op \in {"+", "-"} -> "C05"
    [] lk = "money" /\ rk = "money" /\ op \in {"+", "-", "/"} -> "C06"
    [] lk = "money" /\ rk = "num" /\ op \in {"*", "/"}        -> "C06"
    [] lk = "dur" /\ rk = "dur" /\ op \in {"+", "-"}          -> "C10"
    [] lk = "time" /\ rk = "dur" /\ op \in {"+", "-"}         -> "C11"
    [] lk = "date" /\ rk = "dur" /\ op \in {"+", "-"}         -> "C09"
    [] lk = "unit" /\ rk = "unit" /\ op \in {"+", "-", "/"}   -> "C12"
    [] lk = "unit" /\ rk = "num" /\ op \in {"*", "/"}         -> "C12"
    [] OTHER                                                  -> "descriptive"

\* a duration seen as a number by money (DurationItem::get_number): the count of its leading unit - years, else
\* 30-day months, else days (weeks are not a step of this ladder), else hours, minutes, seconds
HighCount(a) ==
  LET m == DurAbs(a) IN
  IF m.d >= 365 THEN m.d \div 365
  ELSE IF m.d >= 30 THEN (m.d \div 30) % 30
  ELSE IF m.d >= 1 THEN m.d
  ELSE IF m.s >= 3600 THEN (m.s \div 3600) % 24
  ELSE IF m.s >= 60 THEN (m.s \div 60) % 60
  ELSE m.s

\* a percentage seen from a value x: x * p / 100
Share(x, p) == QDiv(QMul(x, p), Hundred)

\* A op B.  a, b are values of Values.tla; the result is a value, Err, or a term the driver evaluates.
\* Exactness: money of two currencies goes through the rate table (term), quantities through UnitArith.
Combine(calc, a, op, b) ==
  LET rk == ResultKind(a.k, op, b.k, a.k = "unit" /\ b.k = "unit" /\ UnitOf(a.u).kind = UnitOf(b.u).kind) IN
  IF rk = "error" THEN Err
  ELSE CASE a.k = "num" /\ b.k = "num" -> Num(Apply(op, a.q, b.q))
         [] a.k = "num" /\ b.k = "pct" -> Num(Apply(op, a.q, Share(a.q, b.q)))
         [] a.k = "pct" /\ b.k = "pct" -> IF op = "/" /\ QIsZero(b.q) THEN Unspec ELSE Pct(Apply(op, a.q, b.q))
         [] a.k = "money" /\ b.k = "num" -> Money(Apply(op, a.q, b.q), a.cur)
         [] a.k = "money" /\ b.k = "pct" -> Money(Apply(op, a.q, Share(a.q, b.q)), a.cur)
         [] a.k = "money" /\ b.k = "dur" -> Money(Apply(op, a.q, QInt(HighCount(b))), a.cur)
         [] a.k = "money" /\ b.k = "money" ->
              IF op = "*"
              THEN (IF Exact(calc, b.cur, a.cur) THEN Money(QMul(a.q, ConvQ(calc, b.q, b.cur, a.cur)), a.cur)
                    ELSE TermOf(calc, "money", a.cur, Zero, QMul(a.q, b.q), a.cur, b.cur, FALSE))
              ELSE MoneyArith(calc, [q |-> a.q, cur |-> a.cur], op, [q |-> b.q, cur |-> b.cur])
         [] a.k = "dur" /\ b.k = "dur" -> IF op = "+" THEN DurAdd(a, b) ELSE DurSub(a, b)
         [] a.k = "time" /\ b.k = "dur" -> ShiftTime(a, op, b)
         \* a time on the right is read as the duration since (UTC) midnight of its instant
         [] a.k = "time" /\ b.k = "time" -> Time(IF op = "+" THEN (a.sod + b.sod) % DaySecs ELSE (a.sod - b.sod) % DaySecs, a.off, a.zone)
         [] a.k = "date" /\ b.k = "dur" -> IF b.s = 0 /\ b.d \in 0..29 THEN ShiftDate(a, op, b.d, "day") ELSE Unspec
         [] a.k = "datetime" /\ b.k = "dur" ->
              LET t == IF op = "+" THEN Ts(a.d + b.d, a.s + b.s) ELSE Ts(a.d - b.d, a.s - b.s) IN DateTime(t.d, t.s, a.off, a.zone)
         [] a.k = "unit" /\ b.k = "num" -> UnitQ(Apply(op, a.q, b.q), a.u)
         [] a.k = "unit" /\ b.k = "pct" -> IF op = "/" THEN Num(QDiv(a.q, Share(a.q, b.q))) ELSE UnitQ(Apply(op, a.q, Share(a.q, b.q)), a.u)
         [] a.k = "unit" /\ b.k = "unit" ->
              IF op = "*"
              THEN LET c == ConvertUnitQ(b.q, b.u, a.u) IN IF c.exact THEN UnitQ(QMul(a.q, c.q), a.u) ELSE Unspec
              ELSE UnitArith([q |-> a.q, u |-> a.u], op, [q |-> b.q, u |-> b.u])
         [] OTHER -> Unspec

Cell(calc, a, op, b) == [slot |-> Combine(calc, a, op, b), by |-> FixedBy(a.k, op, b.k)]

(***************************************************************************)
(* Design-level facts about the algebra (checked by MC_Kinds):              *)
(*  - the left operand decides: ResultKind never depends on more than the   *)
(*    three arguments, and a cell whose left kind is pct, dur, time, date   *)
(*    or datetime only accepts the right kinds listed;                      *)
(*  - money and quantities are "modules over numbers": scaling by a number  *)
(*    keeps the kind; a ratio of two like things is a plain number;         *)
(*  - the cells fixed by a property are never errors.                       *)
(***************************************************************************)
FixedCellsAreValues ==
  \A lk \in Kinds8, rk \in Kinds8, op \in Ops4 :
     FixedBy(lk, op, rk) # "descriptive" => ResultKind(lk, op, rk, TRUE) # "error"
RatioIsNumber ==
  \A k \in {"money", "unit"} : ResultKind(k, "/", k, TRUE) = "num" /\ \A op \in Ops4 \ {"/"} : ResultKind(k, op, k, TRUE) = k
ScalingKeepsKind ==
  \A k \in {"money", "unit", "num"}, op \in Ops4 : ResultKind(k, op, "num", TRUE) = k
\* number of cells that evaluate: 4*2 + 4 + 4*4 + 2 + 2*2 + 2 + 2 + 4*3 = 50 of 256
ValueCells == {c \in Kinds8 \X Ops4 \X Kinds8 : ResultKind(c[1], c[2], c[3], TRUE) # "error"}
=============================================================================
