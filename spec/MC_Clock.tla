------------------------------ MODULE MC_Clock ------------------------------
(***************************************************************************)
(* Design-level check of the C11 oracle over every minute of the day (plus  *)
(* odd seconds) and a set of offsets that contains both signs, half- and    *)
(* quarter-hour offsets and the extremes of the table.                      *)
(***************************************************************************)
EXTENDS Clock
Offs == {-720, -690, -570, -300, -210, -1, 0, 1, 60, 330, 345, 525, 765, 840}
Z(o) == [name |-> "Z", off |-> o]
VARIABLE w
Init == w \in {m * 60 + s : m \in 0..1439, s \in {0, 7, 59}}
Next == UNCHANGED w
RoundTrip == \A o \in Offs : Shown(Instant(w, Z(o)), Z(o)) = w /\ Instant(w, Z(o)) \in 0..(DaySecs - 1)
COffs == {-690, -300, 0, 60, 345, 840}
Composition == \A a, b, c \in COffs :
   LET t == TimeIn(w, Z(a)) IN
   /\ ConvertTime(ConvertTime(t, Z(b)), Z(c)) = ConvertTime(t, Z(c))
   /\ TimePrinted(ConvertTime(ConvertTime(t, Z(b)), Z(a)))[1] = w
   /\ TimePrinted(ConvertTime(t, Z(b)))[1] = (w - a * 60 + b * 60) % DaySecs
ShiftInverse == \A o \in {-300, 0, 345} : \A s \in {1, 3540, 3600, 46800, 86399} :
   LET t == TimeIn(w, Z(o)) d == Dur(0, s) IN
   /\ ShiftTime(ShiftTime(t, "+", d), "-", d) = t
   /\ ShiftTime(t, "+", Dur(1, s)) = ShiftTime(t, "+", d)          \* modulo 24 hours
   /\ ShiftTime(t, "+", Dur(0, 0)) = t
DiffSym == \A w2 \in {0, 1, 41400, 86399} : DiffTime(w, Z(0), w2, Z(0)) = DiffTime(w2, Z(0), w, Z(0))
                                           /\ DiffTime(w, Z(60), w, Z(60)) = DurZero
=============================================================================
