--------------------------- MODULE PipelineTrace ---------------------------
(***************************************************************************)
(* Trace validation of the rule engine against Pipeline.tla.  The library,  *)
(* built with --cfg smartcalc_verif, records for every evaluated line the   *)
(* active tokens when the engine starts, every match a rule's function      *)
(* refused, and every rewrite with the tokens after it.  This module steps  *)
(* the model one *try* at a time - rule r, pattern p, in the engine's order *)
(* - and consumes the recorded events: a try whose pattern matches must be  *)
(* answered by the next event, either "refuse r" (the engine goes on with   *)
(* the next pattern) or "apply r" with exactly the tokens the model's       *)
(* rewrite produces (the engine starts over with the first rule); a try     *)
(* whose pattern does not match is silent.  When the rule list is exhausted *)
(* every event must have been consumed.  A line that disagrees is recorded  *)
(* in bad (with the try at which it disagreed) and the next line starts.    *)
(* Non-gating: scheduling is not a user-visible property; this binds the    *)
(* implementation-shaped layer of the specification to the code.            *)
(***************************************************************************)
EXTENDS Naturals, Sequences, FiniteSets, TLC, Json, IOUtils
Rules == JsonDeserialize(IOEnv.RULES).rules
Lines == ndJsonDeserialize(IOEnv.TRACE)
Schedule == "restart"
CurrencyWords == {}
VARIABLES toks, cur, dirty, done, log       \* Pipeline's variables; cur / dirty / done / log are not used here
P == INSTANCE Pipeline
VARIABLES li, r, p, ei, bad
tvars == <<toks, cur, dirty, done, log, li, r, p, ei, bad>>

Tok(t) == [k |-> t[1], w |-> t[2]]
TokSeq(s) == [i \in DOMAIN s |-> Tok(s[i])]
Evs == Lines[li].evs
LoadLine(i) == toks' = (IF i <= Len(Lines) THEN TokSeq(Lines[i].start) ELSE <<>>) /\ li' = i /\ r' = 1 /\ p' = 1 /\ ei' = 1

Init == toks = (IF Len(Lines) > 0 THEN TokSeq(Lines[1].start) ELSE <<>>) /\ li = 1 /\ r = 1 /\ p = 1 /\ ei = 1 /\ bad = {}
        /\ cur = 1 /\ dirty = FALSE /\ done = FALSE /\ log = <<>>

Report(what) == PrintT(<<"BAD", ToJson([l |-> li, at |-> [rule |-> IF r <= Len(Rules) THEN Rules[r].name ELSE "end", pat |-> p, event |-> ei], what |-> what])>>)
Fail(what) == bad' = (IF Report(what) THEN bad \cup {li} ELSE bad) /\ LoadLine(li + 1)

Next ==
  /\ li <= Len(Lines)
  /\ UNCHANGED <<cur, dirty, done, log>>
  /\ IF r > Len(Rules)
     THEN IF ei = Len(Evs) + 1 THEN bad' = bad /\ LoadLine(li + 1) ELSE Fail("events left over when the rule list is exhausted")
     ELSE IF p > Len(Rules[r].pats)
     THEN r' = r + 1 /\ p' = 1 /\ UNCHANGED <<toks, li, ei, bad>>
     ELSE LET sc == P!Scan(Rules[r].pats[p], toks) IN
          IF ~sc.found THEN p' = p + 1 /\ UNCHANGED <<toks, li, r, ei, bad>>
          ELSE IF ei > Len(Evs) THEN Fail("a pattern matches but the code recorded nothing")
          ELSE LET e == Evs[ei] IN
               IF e.rule # Rules[r].name THEN Fail("the code's next step is by another rule")
               ELSE IF e.e = "refuse" THEN p' = p + 1 /\ ei' = ei + 1 /\ UNCHANGED <<toks, li, r, bad>>
               ELSE IF TokSeq(e.toks) = P!Rewrite(Rules[r], toks, sc)
                    THEN toks' = TokSeq(e.toks) /\ r' = 1 /\ p' = 1 /\ ei' = ei + 1 /\ UNCHANGED <<li, bad>>
                    ELSE Fail("the rewrite differs from the model's")
Spec == Init /\ [][Next]_tvars
Consumed == li = Len(Lines) + 1
Accepted == IF \E n \in {TLCGet("stats").diameter} : TRUE THEN TRUE ELSE TRUE
=============================================================================
