------------------------------ MODULE Gen_Money ------------------------------
(***************************************************************************)
(* C06 generator.  (i) literals and conversions over all ordered pairs of   *)
(* rated currencies under the configured rates (expected = term over the    *)
(* configured rates) and under exact rates set through update_currency;     *)
(* (ii) money arithmetic; (iii) every history of MaxDepth calls over        *)
(* update_currency (by code, by alias, for an unknown spelling) and         *)
(* evaluations, with the expected return value / result of every call.      *)
(***************************************************************************)
EXTENDS SmartCalc, Json, IOUtils
CONSTANT MaxDepth
Consts == JsonDeserialize(IOEnv.CONSTS)
SeqSet(s) == {s[i] : i \in DOMAIN s}
Rated == SeqSet(Consts.rated)
Calc0 == [DefaultCalc EXCEPT !.alias = Consts.alias, !.codes = SeqSet(Consts.codes)]
Exact3 == <<[cur |-> "usd", q |-> One], [cur |-> "eur", q |-> Q(5, 2)], [cur |-> "try", q |-> QInt(8)], [cur |-> "gbp", q |-> Q(3, 4)]>>
CalcX == [Calc0 EXCEPT !.rates = Exact3]
O(q, c) == [q |-> q, cur |-> c]
Amounts == {QInt(10), Q(5, 2)}
Lits == {QInt(1), QInt(10), Q(5, 2), QInt(3000), Norm(<<5, 2, 6>>)}
XCurs == {"usd", "eur", "try", "gbp"}
Lines1 == {[form |-> "money_lit", x |-> O(q, c)] : q \in Lits, c \in Rated}
     \cup {[form |-> "money_conv", x |-> O(q, a), target |-> b] : q \in Amounts, a \in Rated, b \in Rated}
     \cup {[form |-> "money_arith", l |-> O(QInt(10), a), op |-> o, r |-> O(Q(5, 2), b)] : a \in XCurs, b \in XCurs, o \in {"+", "-", "/"}}
     \cup {[form |-> "money_arith", l |-> O(QInt(-10), a), op |-> o, r |-> O(n, "")] : a \in XCurs, o \in {"*", "/"}, n \in {Zero, QInt(4), Q(-5, 2)}}
     \* every ordered pair of rated currencies (currencies that share a symbol, e.g. $ or kr, are distinct currencies)
     \cup {[form |-> "money_arith", l |-> O(QInt(10), a), op |-> "+", r |-> O(QInt(10), b)] : a \in Rated, b \in Rated}
     \cup {[form |-> "money_arith", l |-> O(QInt(10), p[1]), op |-> "/", r |-> O(QInt(4), p[2])] : p \in {q \in Rated \X Rated : q[1] # q[2] /\ (q[1] \in XCurs \/ q[2] \in XCurs)}}
LinesX == {[form |-> "money_conv", x |-> O(q, a), target |-> b] : q \in Amounts \cup {Zero, QInt(-4)}, a \in XCurs, b \in XCurs}
     \cup {[form |-> "money_arith", l |-> O(QInt(10), a), op |-> o, r |-> O(Q(5, 2), b)] : a \in XCurs, b \in XCurs, o \in {"+", "-", "/"}}

\* histories
Spell == {"usd", "dollar", "eur", "try", "zzz"}
HRates == {One, QInt(2), Q(5, 2), QInt(8)}
HLines == << [form |-> "money_conv", x |-> O(QInt(10), "usd"), target |-> "eur"],
             [form |-> "money_conv", x |-> O(QInt(10), "eur"), target |-> "try"],
             [form |-> "money_arith", l |-> O(QInt(10), "usd"), op |-> "+", r |-> O(QInt(10), "eur")],
             [form |-> "money_arith", l |-> O(QInt(10), "try"), op |-> "/", r |-> O(QInt(5), "usd")] >>

VARIABLES mode, c, hist
gvars == <<vars, mode, c, hist>>
Ctx1(cl) == [calc |-> cl, lang |-> "en", today |-> 0, env |-> EmptyEnv]
GInit == /\ calc = Calc0 /\ sess = <<>> /\ run = NoRun /\ today = 0 /\ last = [call |-> "none"] /\ hist = <<>>
         /\ \/ (mode = "line"  /\ \E l \in Lines1 : c = [pre |-> <<>>, line |-> l, expected |-> LineMeaning(Ctx1(Calc0), l).slot])
            \/ (mode = "linex" /\ \E l \in LinesX : c = [pre |-> Exact3, line |-> l, expected |-> LineMeaning(Ctx1(CalcX), l).slot])
            \* RateFrame on the code: after update_currency(x, 2) for any configured currency x, every rated currency y converts
            \* with its own rate - the configured one unless y = x
            \/ (mode = "frame" /\ \E x \in SeqSet(Consts.codes) : \E y \in Rated :
                    LET l == [form |-> "money_conv", x |-> O(QInt(10), y), target |-> "usd"] IN
                    c = [pre |-> <<[cur |-> x, q |-> QInt(2)]>>, line |-> l, expected |-> LineMeaning(Ctx1(SetRate(Calc0, x, QInt(2))), l).slot])
            \* ... and the updated currency itself converts with the new rate, in both directions - also one of the 129 currencies that
            \* have no configured rate: update_currency is what gives it one
            \/ (mode = "frame" /\ \E x \in SeqSet(Consts.codes) \ {"usd"} : \E dir \in {"from", "into"} :
                    LET l == IF dir = "from" THEN [form |-> "money_conv", x |-> O(QInt(10), x), target |-> "usd"]
                                             ELSE [form |-> "money_conv", x |-> O(QInt(10), "usd"), target |-> x] IN
                    c = [pre |-> <<[cur |-> x, q |-> QInt(2)]>>, line |-> l, expected |-> LineMeaning(Ctx1(SetRate(Calc0, x, QInt(2))), l).slot])
            \/ (mode = "hist"  /\ c = [pre |-> <<>>])
GNext ==
  /\ mode = "hist" /\ Len(hist) < MaxDepth /\ UNCHANGED <<mode, c>>
  /\ \/ \E s \in Spell, q \in HRates :
          /\ UpdateCurrency(s, q)
          /\ hist' = Append(hist, [call |-> "update_currency", cur |-> s, rate |-> q, ret |-> last'.ret])
     \/ \E i \in DOMAIN HLines :
          /\ hist' = Append(hist, [call |-> "execute", line |-> HLines[i], expected |-> LineMeaning(Ctx1(calc), HLines[i]).slot])
          /\ last' = [call |-> "execute", status |-> TRUE, slots |-> <<>>, lines |-> <<>>]
          /\ UNCHANGED <<calc, sess, run, today>>
Emit == CASE mode \in {"line", "linex", "frame"} -> PrintT(<<"CASE", ToJson([kind |-> "line"] @@ c)>>)
          [] mode = "hist" /\ Len(hist) = MaxDepth -> PrintT(<<"CASE", ToJson([kind |-> "hist", hist |-> hist])>>)
          [] OTHER -> TRUE
\* design-level: update_currency changes exactly the one rate (RateFrame) and evaluation never changes calc
RateFrameInv == \A i \in DOMAIN hist : hist[i].call = "update_currency" => (hist[i].ret = (hist[i].cur # "zzz"))
=============================================================================
