---- MODULE DurLemma ----
EXTENDS Integers
VARIABLE
  \* @type: Int;
  s
MINUTE == 60
HOUR == 3600
DAY == 86400
WEEK == 604800
MONTH == 2592000
YEAR == 31536000
Init == s \in Nat
Next == UNCHANGED s
Y == s \div YEAR
R1 == s % YEAR
Mo == R1 \div MONTH
R2 == R1 % MONTH
W == R2 \div WEEK
R3 == R2 % WEEK
D == R3 \div DAY
R4 == R3 % DAY
H == R4 \div HOUR
R5 == R4 % HOUR
Mi == R5 \div MINUTE
Se == R5 % MINUTE
Inv == /\ Y * YEAR + Mo * MONTH + W * WEEK + D * DAY + H * HOUR + Mi * MINUTE + Se = s
       /\ Mo <= 12 /\ W <= 4 /\ D <= 6 /\ H <= 23 /\ Mi <= 59 /\ Se <= 59
====
