---- MODULE CalAgree ----
(* The specification's DaysFromCivil (spec/Calendar.tla: days before the year + cumulative month lengths + leap adjustment)
   agrees, for every valid civil date of the years 1..9999, with the closed-form days_from_civil of the era / year-of-era /
   day-of-year algorithm whose round trip CalLemma proves.  Unbounded over the three integers, discharged by Apalache. *)
EXTENDS Integers
VARIABLES
  \* @type: Int;
  y,
  \* @type: Int;
  m,
  \* @type: Int;
  d
Leap(x) == (x % 4 = 0 /\ x % 100 # 0) \/ x % 400 = 0
DaysIn(x, mm) == IF mm = 2 THEN (IF Leap(x) THEN 29 ELSE 28) ELSE IF mm \in {4, 6, 9, 11} THEN 30 ELSE 31
Init == y \in 1..9999 /\ m \in 1..12 /\ d \in 1..31 /\ d <= DaysIn(y, m)
Next == UNCHANGED <<y, m, d>>
\* spec/Calendar.tla
DaysBeforeYear(x) == LET p == x - 1 IN 365 * p + (p \div 4) - (p \div 100) + (p \div 400)
Cum(mm) == IF mm = 1 THEN 0 ELSE IF mm = 2 THEN 31 ELSE IF mm = 3 THEN 59 ELSE IF mm = 4 THEN 90 ELSE IF mm = 5 THEN 120 ELSE IF mm = 6 THEN 151
           ELSE IF mm = 7 THEN 181 ELSE IF mm = 8 THEN 212 ELSE IF mm = 9 THEN 243 ELSE IF mm = 10 THEN 273 ELSE IF mm = 11 THEN 304 ELSE 334
Mine == DaysBeforeYear(y) + Cum(m) + (IF m > 2 /\ Leap(y) THEN 1 ELSE 0) + (d - 1) - 719162
\* closed form
y2 == IF m <= 2 THEN y - 1 ELSE y
era == y2 \div 400
yoe == y2 - era * 400
mp == (m + 9) % 12
doy == (153 * mp + 2) \div 5 + d - 1
doe == yoe * 365 + yoe \div 4 - yoe \div 100 + doy
Closed == era * 146097 + doe - 719468
Inv == Mine = Closed
====
