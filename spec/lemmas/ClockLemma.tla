---- MODULE ClockLemma ----
(* Unbounded (over all integers in the stated ranges) companion of MC_Clock, discharged by Apalache as a single-state check:
   a wall time, taken to its instant in a zone and shown again in that zone, is the same wall time; conversion to another
   zone and back likewise; the shown time of a conversion is wall - source offset + target offset modulo 24 hours. *)
EXTENDS Integers
VARIABLES
  \* @type: Int;
  w,
  \* @type: Int;
  a,
  \* @type: Int;
  b
Day == 86400
Instant(x, off) == (x - off * 60) % Day
Shown(i, off) == (i + off * 60) % Day
Init == w \in 0..(Day - 1) /\ a \in -1440..1440 /\ b \in -1440..1440
Next == UNCHANGED <<w, a, b>>
Inv == /\ Shown(Instant(w, a), a) = w
       /\ Instant(w, a) \in 0..(Day - 1)
       /\ Shown(Instant(Shown(Instant(w, a), b), b), a) = w
       /\ Shown(Instant(w, a), b) = (w - a * 60 + b * 60) % Day
====
