---- MODULE CalLemma ----
EXTENDS Integers
VARIABLE
  \* @type: Int;
  z0
Init == z0 \in Int /\ z0 >= -719468 /\ z0 <= 100000000
Next == UNCHANGED z0
z == z0 + 719468
era == z \div 146097
doe == z - era * 146097
yoe == (doe - doe \div 1460 + doe \div 36524 - doe \div 146096) \div 365
y == yoe + era * 400
doy == doe - (365 * yoe + yoe \div 4 - yoe \div 100)
mp == (5 * doy + 2) \div 153
d == doy - (153 * mp + 2) \div 5 + 1
m == IF mp < 10 THEN mp + 3 ELSE mp - 9
yy == IF m <= 2 THEN y + 1 ELSE y
\* back
y2 == IF m <= 2 THEN yy - 1 ELSE yy
era2 == y2 \div 400
yoe2 == y2 - era2 * 400
mp2 == (m + 9) % 12
doy2 == (153 * mp2 + 2) \div 5 + d - 1
doe2 == yoe2 * 365 + yoe2 \div 4 - yoe2 \div 100 + doy2
back == era2 * 146097 + doe2 - 719468
Leap(x) == (x % 4 = 0 /\ x % 100 # 0) \/ x % 400 = 0
DaysIn(x, mm) == IF mm = 2 THEN (IF Leap(x) THEN 29 ELSE 28) ELSE IF mm \in {4,6,9,11} THEN 30 ELSE 31
Inv == back = z0 /\ m >= 1 /\ m <= 12 /\ d >= 1 /\ d <= DaysIn(yy, m)
====
