CONSTANT Depth = 2
CONSTANT LitSet = "B"
INIT Init
NEXT Next
INVARIANT Emit
CHECK_DEADLOCK FALSE
