------------------------------ MODULE Rational ------------------------------
(***************************************************************************)
(* Exact arithmetic for the value domain of the calculator.  TLC has only  *)
(* 32-bit integers and no reals, so a real number is a *scaled rational*   *)
(*                                                                         *)
(*        <<n, d, e>>   meaning   n / d * 10^e                             *)
(*                                                                         *)
(* in canonical form: with N/D the value in lowest terms (D > 0) and        *)
(* N = n * 1000^j, 1000 not dividing n, the tuple is <<n, D, 3j>> (zero is *)
(* <<0, 1, 0>>).  The decimal exponent lets the magnitude suffixes k .. Y  *)
(* (10^3 .. 10^21) be carried exactly.  Two canonical values are equal iff *)
(* they are the same tuple (MC_Arith checks Canonical on every value).     *)
(*                                                                         *)
(* Generators and drivers keep operands small enough that no intermediate  *)
(* product leaves the 32-bit range; TLC reports "Overflow" otherwise and   *)
(* the driver treats that as a tool error, never as a verdict.             *)
(***************************************************************************)
EXTENDS Integers, Sequences

Abs(x) == IF x < 0 THEN -x ELSE x
MinI(a, b) == IF a < b THEN a ELSE b
MaxI(a, b) == IF a > b THEN a ELSE b

RECURSIVE Gcd(_, _)
Gcd(a, b) == IF b = 0 THEN a ELSE Gcd(b, a % b)

RECURSIVE Pow10(_)
Pow10(k) == IF k <= 0 THEN 1 ELSE 10 * Pow10(k - 1)

RECURSIVE Strip(_)
Strip(q) == IF q[1] # 0 /\ q[1] % 1000 = 0 THEN Strip(<<q[1] \div 1000, q[2], q[3] + 3>>) ELSE q

\* a positive exponent is folded into the numerator as long as the denominator can cancel part of it
RECURSIVE Absorb(_)
Absorb(q) ==
  IF q[3] > 0 /\ Gcd(q[2], 1000) > 1
  THEN LET n == q[1] * 1000
           g == Gcd(Abs(n), q[2])
       IN  Absorb(<<n \div g, q[2] \div g, q[3] - 3>>)
  ELSE q

Zero == <<0, 1, 0>>
One  == <<1, 1, 0>>

\* an exponent that is not a multiple of 3 is folded back into the numerator (at most a factor 100)
Fold3(q) == LET r == q[3] % 3 IN IF r = 0 THEN q ELSE <<q[1] * Pow10(r), q[2], q[3] - r>>
Norm(q) ==
  IF q[1] = 0 THEN Zero
  ELSE LET f == Fold3(q)
           g == Gcd(Abs(f[1]), Abs(f[2]))
           s == IF f[2] < 0 THEN -1 ELSE 1
       IN  Strip(Absorb(<<(s * f[1]) \div g, (s * f[2]) \div g, f[3]>>))

\* n = m * 10^j with 10 not dividing m
RECURSIVE TensOf(_)
TensOf(n) == IF n # 0 /\ n % 10 = 0 THEN TensOf(n \div 10) + 1 ELSE 0

Q(n, d)  == Norm(<<n, d, 0>>)
QInt(n)  == Norm(<<n, 1, 0>>)
IsQ(q)   == q \in Seq(Int) /\ Len(q) = 3

QNeg(a) == <<-a[1], a[2], a[3]>>
QAbs(a) == <<Abs(a[1]), a[2], a[3]>>
QSign(a) == IF a[1] > 0 THEN 1 ELSE IF a[1] < 0 THEN -1 ELSE 0
QIsZero(a) == a[1] = 0

\* numerators brought to the smaller of the two exponents
AlignedN(a, m) == a[1] * Pow10(a[3] - m)

QAdd(a, b) ==
  LET m == MinI(a[3], b[3])
      g == Gcd(a[2], b[2])
      \* a.n/a.d + b.n/b.d over the least common denominator
  IN  Norm(<<AlignedN(a, m) * (b[2] \div g) + AlignedN(b, m) * (a[2] \div g), (a[2] \div g) * b[2], m>>)

QSub(a, b) == QAdd(a, QNeg(b))

QMul(a, b) ==
  IF a[1] = 0 \/ b[1] = 0 THEN Zero
  ELSE LET g1 == Gcd(Abs(a[1]), b[2])
           g2 == Gcd(Abs(b[1]), a[2])
           x  == a[1] \div g1
           y  == b[1] \div g2
           jx == TensOf(x)
           jy == TensOf(y)
           \* powers of ten go to the exponent before the numerators are multiplied
       IN  Norm(<<(x \div Pow10(jx)) * (y \div Pow10(jy)), (a[2] \div g2) * (b[2] \div g1), a[3] + b[3] + jx + jy>>)

\* n / (d * 10^k), cancelling the powers of ten the numerator contains before multiplying out
RECURSIVE DivPow10(_, _, _)
DivPow10(n, d, k) ==
  IF k = 0 THEN Norm(<<n, d, 0>>)
  ELSE IF n % 10 = 0 THEN DivPow10(n \div 10, d, k - 1)
  ELSE IF n % 5 = 0 THEN DivPow10(n \div 5, d * 2, k - 1)
  ELSE IF n % 2 = 0 THEN DivPow10(n \div 2, d * 5, k - 1)
  ELSE DivPow10(n, d * 10, k - 1)

\* the calculator defines x / 0 = 0
QInv(b) == IF b[1] < 0 THEN <<-b[2], -b[1]>> ELSE <<b[2], b[1]>>
QDiv(a, b) ==
  IF b[1] = 0 THEN Zero
  ELSE LET i == QInv(b)      \* 1/b without its exponent
           p == QMul(<<a[1], a[2], 0>>, <<i[1], i[2], 0>>)
       IN  IF a[3] >= b[3] THEN Norm(<<p[1], p[2], p[3] + a[3] - b[3]>>)
           ELSE LET k == b[3] - a[3] - p[3]       \* divide by 10^k
                IN IF k <= 0 THEN Norm(<<p[1], p[2], -k>>)
                   ELSE DivPow10(p[1], p[2], k)

QLess(a, b) == QSub(a, b)[1] < 0
QLeq(a, b) == QSub(a, b)[1] <= 0

Apply(op, a, b) ==
  CASE op = "+" -> QAdd(a, b)
    [] op = "-" -> QSub(a, b)
    [] op = "*" -> QMul(a, b)
    [] op = "/" -> QDiv(a, b)

\* integer value of a canonical rational that is a (small) integer
QIsInt(a) == a[2] = 1
QToInt(a) == a[1] * Pow10(a[3])

\* floor of a non-negative rational with e = 0 semantics folded in
QFloor(a) == (a[1] * Pow10(a[3])) \div a[2]
=============================================================================
