----------------------------- MODULE SmartCalc -----------------------------
(***************************************************************************)
(* smartcalc as a state machine (DESIGN 2 and 4.2).  The library is         *)
(* sequential and single-threaded; every public call is atomic for its      *)
(* caller and its observation is what the call returns.                     *)
(*                                                                         *)
(*   calc   the calculator: separators, format settings, default zone,      *)
(*          rate overrides, custom rules, unit families                     *)
(*   sess   session id -> [lang, lines, pos, env, fresh]                    *)
(*   run    the execute_session call in flight (its loop is modelled step   *)
(*          by step: Begin, one EvalLine per line, End), or NoRun           *)
(*   today  the environment's current UTC day number                        *)
(*   last   observation of the most recent completed call                   *)
(*                                                                         *)
(* The loop of execute_session is the only multi-step activity.  RunLines   *)
(* is its macro-step (all lines at once); MC_SmartCalc checks that the      *)
(* step-by-step loop computes exactly RunLines (LoopIsRunLines), so the     *)
(* generator and trace configurations may use the macro-step.               *)
(***************************************************************************)
EXTENDS Meaning, FiniteSets, TLC

VARIABLES calc, sess, run, today, last
vars == <<calc, sess, run, today, last>>

NoRun == [active |-> FALSE]

NewSess == [lang |-> "", lines |-> <<>>, pos |-> 1, env |-> EmptyEnv, fresh |-> FALSE]

Ctx(lang, env) == [calc |-> calc, lang |-> lang, today |-> today, env |-> env]

InitCalc ==
  /\ calc = DefaultCalc
  /\ sess = <<>>
  /\ run = NoRun
  /\ last = [call |-> "none"]
Init == InitCalc /\ today \in Int

Idle == ~run.active

(* ---- sessions --------------------------------------------------------- *)
NewSession(s) ==
  /\ Idle
  /\ sess' = [x \in (DOMAIN sess) \cup {s} |-> IF x = s THEN NewSess ELSE sess[x]]
  /\ last' = [call |-> "session_new"]
  /\ UNCHANGED <<calc, run, today>>

SetLanguage(s, lang) ==
  /\ Idle /\ s \in DOMAIN sess
  /\ sess' = [sess EXCEPT ![s].lang = lang]
  /\ last' = [call |-> "set_language"]
  /\ UNCHANGED <<calc, run, today>>

\* a text is a non-empty sequence of lines (the empty text is one blank line); setting it rewinds the cursor
SetText(s, lines) ==
  /\ Idle /\ s \in DOMAIN sess
  /\ sess' = [sess EXCEPT ![s].lines = lines, ![s].pos = 1, ![s].fresh = TRUE]
  /\ last' = [call |-> "set_text"]
  /\ UNCHANGED <<calc, run, today>>

(* ---- the evaluation loop, step by step -------------------------------- *)
\* "each time a new text is set on it every line of that text is evaluated exactly once, in order":
\* specified for the first execute_session after a set_text (fresh); executing the same text again
\* without a new set_text is not described by the properties.
BeginExec(s) ==
  /\ Idle /\ s \in DOMAIN sess /\ sess[s].fresh
  /\ run' = [active |-> TRUE, s |-> s, slots |-> <<>>, env0 |-> sess[s].env]
  /\ UNCHANGED <<calc, sess, today, last>>

EvalLine ==
  /\ run.active
  /\ LET s == run.s IN
     /\ sess[s].pos <= Len(sess[s].lines)
     /\ LET m == LineMeaning(Ctx(sess[s].lang, sess[s].env), sess[s].lines[sess[s].pos])
        IN  /\ run' = [run EXCEPT !.slots = Append(@, m.slot)]
            /\ sess' = [sess EXCEPT ![s].env = m.env, ![s].pos = @ + 1]
  /\ UNCHANGED <<calc, today, last>>

EndExec ==
  /\ run.active
  /\ sess[run.s].pos = Len(sess[run.s].lines) + 1
  /\ last' = [call |-> "execute_session", s |-> run.s, status |-> TRUE, slots |-> run.slots,
              lines |-> sess[run.s].lines, env0 |-> run.env0]
  /\ sess' = [sess EXCEPT ![run.s].fresh = FALSE]
  /\ run' = NoRun
  /\ UNCHANGED <<calc, today>>

\* execute(lang, text): the same loop on a private, fresh session that is dropped afterwards
Execute(lang, lines) ==
  /\ Idle
  /\ LET r == RunLines(Ctx(lang, EmptyEnv), lines, <<>>)
     IN  last' = [call |-> "execute", status |-> TRUE, slots |-> r.slots, lines |-> lines]
  /\ UNCHANGED <<calc, sess, run, today>>

\* macro-step used by trace and generator configurations
ExecSession(s) ==
  /\ Idle /\ s \in DOMAIN sess /\ sess[s].fresh
  /\ LET r == RunLines(Ctx(sess[s].lang, sess[s].env), sess[s].lines, <<>>)
     IN  /\ last' = [call |-> "execute_session", s |-> s, status |-> TRUE, slots |-> r.slots,
                     lines |-> sess[s].lines, env0 |-> sess[s].env]
         /\ sess' = [sess EXCEPT ![s].env = r.env, ![s].pos = Len(sess[s].lines) + 1, ![s].fresh = FALSE]
  /\ UNCHANGED <<calc, run, today>>

(* ---- configuration ---------------------------------------------------- *)
Setter(f, x, name) == Idle /\ calc' = [calc EXCEPT ![f] = x] /\ last' = [call |-> name] /\ UNCHANGED <<sess, run, today>>
SetDecimalSep(x)  == Setter("dec", x, "set_dec")
SetThousandSep(x) == Setter("tho", x, "set_tho")
SetNumberCfg(c)   == Setter("num", c, "set_num")
SetPercentCfg(c)  == Setter("pct", c, "set_pct")
SetMoneyCfg(c)    == Setter("mon", c, "set_mon")

\* update_currency(spelling, rate): the rate of exactly the currency the spelling denotes (alias first, then code);
\* returns FALSE and changes nothing for a spelling that denotes no currency
UpdateCurrency(s, q) ==
  /\ Idle
  /\ LET c == Canon(calc, s) IN
       /\ calc' = IF c = "none" THEN calc ELSE SetRate(calc, c, q)
       /\ last' = [call |-> "update_currency", ret |-> c # "none"]
  /\ UNCHANGED <<sess, run, today>>

\* custom rules and unit families (C18)
AddRule(lang, name, pats, beh) ==
  /\ Idle /\ calc' = AddRuleTo(calc, lang, name, pats, beh)
  /\ last' = [call |-> "add_rule", ret |-> AddRuleRet(lang)] /\ UNCHANGED <<sess, run, today>>
DeleteRule(lang, name) ==
  /\ Idle /\ calc' = DeleteRuleFrom(calc, lang, name)
  /\ last' = [call |-> "delete_rule", ret |-> HasRule(calc, lang, name)] /\ UNCHANGED <<sess, run, today>>
AddFamily(f) ==
  /\ Idle /\ calc' = AddFamTo(calc, f)
  /\ last' = [call |-> "add_type", ret |-> ~HasFam(calc, f)] /\ UNCHANGED <<sess, run, today>>
AddItem(f, item) ==
  /\ Idle /\ calc' = AddItemTo(calc, f, item)
  /\ last' = [call |-> "add_type_item", ret |-> AddItemOk(calc, f, item.idx)] /\ UNCHANGED <<sess, run, today>>

\* set_timezone(name): the default zone becomes the zone the name denotes - an entry of the zone table (calc.zones, the
\* configured table handed in by the driver) or GMT[+-]h[:mm] - and the call fails, changing nothing, for any other name.
\* w is the written name in structured form: [kind |-> "table", name] | [kind |-> "gmt", name, sign, h, m] | [kind |-> "none"]
ZoneOfSpelling(w) ==
  CASE w.kind = "table" /\ w.name \in DOMAIN calc.zones -> [ok |-> TRUE, name |-> w.name, off |-> calc.zones[w.name]]
    [] w.kind = "gmt" -> [ok |-> TRUE, name |-> w.name, off |-> (w.h * 60 + w.m) * w.sign]
    [] OTHER -> [ok |-> FALSE, name |-> "", off |-> 0]
SetTimezone(w) ==
  /\ Idle
  /\ LET z == ZoneOfSpelling(w) IN
       /\ calc' = IF z.ok THEN [calc EXCEPT !.tz = [name |-> z.name, off |-> z.off]] ELSE calc
       /\ last' = [call |-> "set_tz", ret |-> z.ok]
  /\ UNCHANGED <<sess, run, today>>

(* ---- environment ------------------------------------------------------ *)
Tick == Idle /\ today' = today + 1 /\ last' = [call |-> "tick"] /\ UNCHANGED <<calc, sess, run>>

(* ---- properties of the design (checked by MC_SmartCalc) --------------- *)
IsEval == last.call \in {"execute", "execute_session"}

\* C01: status true and exactly one slot per line, each of an admissible kind
SlotPerLine ==
  IsEval => /\ last.status
            /\ Len(last.slots) = Len(last.lines)
            /\ \A i \in DOMAIN last.slots : last.slots[i].k \in ValueKinds \cup {"err", "empty", "unspec", "fails"}

\* the step-by-step loop computes the macro-step
LoopIsRunLines ==
  last.call = "execute_session" =>
     LET r == RunLines(Ctx(sess[last.s].lang, last.env0), last.lines, <<>>)
     IN  r.slots = last.slots /\ r.env = sess[last.s].env

\* C03: after a text, every name holds the value of its last successful assignment in that text
LastAssign(lines, i) ==
  /\ lines[i].form = "assign"
  /\ \A j \in (i + 1)..Len(lines) : lines[j].form = "assign" => lines[j].name # lines[i].name
LatestBinding ==
  last.call = "execute_session" =>
     \A i \in DOMAIN last.lines :
        (LastAssign(last.lines, i) /\ IsValue(last.slots[i])) =>
            /\ Bound(sess[last.s].env, last.lines[i].name)
            /\ Lookup(sess[last.s].env, last.lines[i].name) = last.slots[i]

\* C03: a line that fails leaves all bindings unchanged (checked on every reachable context)
FailKeepsEnvOn(lineset) ==
  \A s \in DOMAIN sess : \A l \in lineset :
     LET m == LineMeaning(Ctx(sess[s].lang, sess[s].env), l)
     IN  m.slot.k \in {"fails", "err"} => m.env = sess[s].env

\* C04 as action properties
EvalFramesCalc   == [][calc' = calc \/ last'.call \in {"set_dec", "set_tho", "set_num", "set_pct", "set_mon", "set_tz", "update_currency", "add_rule", "delete_rule", "add_type", "add_type_item"}]_vars
ExecuteIsPrivate == [][last'.call = "execute" /\ last' # last => sess' = sess]_vars
SessionIsolation ==
  [][\A s \in DOMAIN sess : (run.active /\ run.s # s) => (s \in DOMAIN sess' /\ sess'[s] = sess[s])]_vars
=============================================================================
