----------------------------- MODULE SmartCalc -----------------------------
(***************************************************************************)
(* smartcalc as a state machine (DESIGN 2 and 4.2).  The library is         *)
(* sequential; every action below is one public call and its observation    *)
(* (variable "last") is what the call returns.                              *)
(*                                                                         *)
(*   calc   the calculator: separators, format settings, default zone,      *)
(*          rate overrides, custom rules, unit families                     *)
(*   sess   session id -> [lang, lines, env, fresh]                         *)
(*   today  the environment's current UTC day number                        *)
(*   last   observation of the most recent call                             *)
(***************************************************************************)
EXTENDS Meaning, FiniteSets, TLC

VARIABLES calc, sess, today, last
vars == <<calc, sess, today, last>>

EmptyEnv == <<>>

DefaultCalc ==
  [dec |-> ",", tho |-> ".",
   num |-> [d |-> 2, remove |-> TRUE, round |-> TRUE],
   pct |-> [d |-> 2, remove |-> TRUE, round |-> TRUE],
   mon |-> [remove |-> FALSE, round |-> TRUE],
   tz  |-> [name |-> "UTC", off |-> 0],
   rates |-> <<>>,        \* currency -> rate overrides set through update_currency
   rules |-> <<>>,        \* sequence of registered custom rules (C18)
   fams  |-> <<>>]        \* user-defined unit families (C18)

NewSess == [lang |-> "", lines |-> <<>>, env |-> EmptyEnv, fresh |-> FALSE]

Ctx(lang, env) == [calc |-> calc, lang |-> lang, today |-> today, env |-> env]

\* the loop of execute_session: one slot per line, in order; an erroneous line does not stop the loop
RECURSIVE RunLines(_, _, _)
RunLines(ctx, lines, acc) ==
  IF lines = <<>> THEN [slots |-> acc, env |-> ctx.env]
  ELSE LET m == LineMeaning(ctx, Head(lines))
       IN  RunLines([ctx EXCEPT !.env = m.env], Tail(lines), Append(acc, m.slot))

Init ==
  /\ calc = DefaultCalc
  /\ sess = <<>>
  /\ today \in Int
  /\ last = [call |-> "none"]

(* ---- evaluation ------------------------------------------------------- *)
Execute(lang, lines) ==
  /\ LET r == RunLines(Ctx(lang, EmptyEnv), lines, <<>>)
     IN  last' = [call |-> "execute", status |-> TRUE, slots |-> r.slots]
  /\ UNCHANGED <<calc, sess, today>>

NewSession(s) ==
  /\ sess' = [x \in (DOMAIN sess) \cup {s} |-> IF x = s THEN NewSess ELSE sess[x]]
  /\ last' = [call |-> "session_new"]
  /\ UNCHANGED <<calc, today>>

SetLanguage(s, lang) ==
  /\ s \in DOMAIN sess
  /\ sess' = [sess EXCEPT ![s].lang = lang]
  /\ last' = [call |-> "set_language"]
  /\ UNCHANGED <<calc, today>>

SetText(s, lines) ==
  /\ s \in DOMAIN sess
  /\ sess' = [sess EXCEPT ![s].lines = lines, ![s].fresh = TRUE]
  /\ last' = [call |-> "set_text"]
  /\ UNCHANGED <<calc, today>>

\* "each time a new text is set on it every line of that text is evaluated exactly once, in order":
\* specified for the first execute_session after a set_text (fresh); a second execution of the same
\* text without a new set_text is not described by the properties.
ExecSession(s) ==
  /\ s \in DOMAIN sess
  /\ sess[s].fresh
  /\ LET r == RunLines(Ctx(sess[s].lang, sess[s].env), sess[s].lines, <<>>)
     IN  /\ last' = [call |-> "execute_session", status |-> TRUE, slots |-> r.slots]
         /\ sess' = [sess EXCEPT ![s].env = r.env, ![s].fresh = FALSE]
  /\ UNCHANGED <<calc, today>>

(* ---- configuration ---------------------------------------------------- *)
SetDecimalSep(x)  == calc' = [calc EXCEPT !.dec = x] /\ last' = [call |-> "set_dec"] /\ UNCHANGED <<sess, today>>
SetThousandSep(x) == calc' = [calc EXCEPT !.tho = x] /\ last' = [call |-> "set_tho"] /\ UNCHANGED <<sess, today>>
SetNumberCfg(c)   == calc' = [calc EXCEPT !.num = c] /\ last' = [call |-> "set_num"] /\ UNCHANGED <<sess, today>>
SetPercentCfg(c)  == calc' = [calc EXCEPT !.pct = c] /\ last' = [call |-> "set_pct"] /\ UNCHANGED <<sess, today>>
SetMoneyCfg(c)    == calc' = [calc EXCEPT !.mon = c] /\ last' = [call |-> "set_mon"] /\ UNCHANGED <<sess, today>>

(* ---- environment ------------------------------------------------------ *)
Tick == today' = today + 1 /\ last' = [call |-> "tick"] /\ UNCHANGED <<calc, sess>>

(* ---- properties of the design ---------------------------------------- *)
IsEval == last.call \in {"execute", "execute_session"}
\* C01 (structure): one slot per line
SlotCountOf(lines) == Len(lines)
=============================================================================
