------------------------------- MODULE Config -------------------------------
(***************************************************************************)
(* The configuration data as a model (DESIGN 14.10).  config.json is part   *)
(* of the implementation: the unit families are chains of step codes, the   *)
(* families are joined by bridges, every language has month and word        *)
(* tables.  lib/configmodel.py hands the tables over (step codes as exact   *)
(* rationals); the invariants say what the properties need of them:         *)
(*                                                                         *)
(*  ChainsInvert      going up from item i and down from item i + 1 are     *)
(*                    inverse steps (C12: A to B and back is the identity)  *)
(*  ChainsAreStandard every step is the ratio of the standard sizes of the  *)
(*                    two units (Units!UnitOf: the statement's definitions) *)
(*  BridgesInvert / BridgesAreStandard   the same for the bridges           *)
(*  MonthsComplete    every language names each of the 12 months, long and  *)
(*                    short, and spellings that differ only by diacritics   *)
(*                    name the same month (C09, C19)                        *)
(*  WordsComplete     every language has words for the seven duration       *)
(*                    units and for today / tomorrow / yesterday, the       *)
(*                    duration words are known constants, spellings that    *)
(*                    differ only by diacritics mean the same (C10, C19)    *)
(*  MoneyTablesClosed aliases and rates refer to configured currencies,     *)
(*                    rates are positive (C06)                              *)
(*  ZonesSane         offsets within -12 h .. +14 h (C11)                   *)
(*                                                                         *)
(* The data is the state; there is one state.  A violated invariant is      *)
(* printed with the offending entry (INFO lines).                           *)
(***************************************************************************)
EXTENDS Units, Json, IOUtils, TLC
Cfg == JsonDeserialize(IOEnv.CONFIGMODEL)
SeqToSet(s) == {s[i] : i \in DOMAIN s}
F(x) == Norm(<<x.n, x.d, 0>>)                       \* a step code as a rational factor
Inv(x) == Norm(<<x.d, x.n, 0>>)                     \* the inverse step, without a multiplication (the ounce has nine digits)
Known(x) == x.other = ""
Say(tag, what) == PrintT(<<"INFO", ToJson([inv |-> tag, what |-> what])>>)
\* Check(tag, S): the set S of offending entries is empty - otherwise each entry is printed (an INFO line the driver reads) and, with
\* Strict, the invariant is violated.  The driver runs the lenient configuration: one run lists every offending entry of every table.
CONSTANT Strict
Check(tag, S) == (S = {}) \/ ((\A e \in S : Say(tag, e)) /\ ~Strict)

OunceMg == Norm(<<283495231, 10000, 0>>)            \* 1 oz = 28.3495231 g, in milligrams
\* a quantity in unit a expressed in unit b (one kind): size(a) / size(b), the ounce entering only where exactly one of the two is ounce-based
StdRatio(a, b) ==
  LET ua == UnitOf(a)  ub == UnitOf(b)
      r  == QMul(QDiv(ua.f, ub.f), Pow2Q(ua.e2 - ub.e2))
  IN  IF ua.oz = ub.oz THEN r ELSE IF ua.oz = 1 THEN QMul(r, OunceMg) ELSE QDiv(r, OunceMg)

Fams == SeqToSet(Cfg.families)
Adjacent(fam) == {<<fam.items[i], fam.items[i + 1]>> : i \in 1..(Len(fam.items) - 1)}
\* offending entries are collected family by family / language by language (a bound of a set constructor may not depend on another)
PerFam(Bad(_)) == UNION {Bad(f) : f \in Fams}
AllKnown == Check("step code of another shape",
                  PerFam(LAMBDA f : {[fam |-> f.name, item |-> f.items[i].name] : i \in {j \in DOMAIN f.items : ~Known(f.items[j].up) \/ ~Known(f.items[j].down)}}))
ChainsInvert ==
  Check("up and down steps are not inverse",
        PerFam(LAMBDA f : {[fam |-> f.name, lower |-> p[1].name, upper |-> p[2].name] :
                             p \in {q \in Adjacent(f) : Known(q[1].up) /\ Known(q[2].down) /\ F(q[2].down) # Inv(q[1].up)}}))
ChainsAreStandard ==
  Check("step is not the ratio of the standard sizes",
        PerFam(LAMBDA f : {[fam |-> f.name, lower |-> p[1].name, upper |-> p[2].name] :
                             p \in {q \in Adjacent(f) : q[1].name \in UnitNames /\ q[2].name \in UnitNames /\ Known(q[1].up) /\ F(q[1].up) # StdRatio(q[1].name, q[2].name)}}))
ItemOf(famname, idx) == LET f == CHOOSE f \in Fams : f.name = famname IN f.items[CHOOSE i \in DOMAIN f.items : f.items[i].idx = idx]
BridgesInvert ==
  Check("bridge directions are not inverse", {[src |-> b.src, dst |-> b.dst] : b \in {y \in SeqToSet(Cfg.bridges) : Known(y.from_src) /\ Known(y.from_dst) /\ F(y.from_dst) # Inv(y.from_src)}})
BridgesAreStandard ==
  Check("bridge is not the ratio of the standard sizes", {[src |-> b.src, dst |-> b.dst] :
           b \in {y \in SeqToSet(Cfg.bridges) : Known(y.from_src) /\ ItemOf(y.src, y.src_idx).name \in UnitNames /\ ItemOf(y.dst, y.dst_idx).name \in UnitNames
                                                /\ F(y.from_src) # StdRatio(ItemOf(y.src, y.src_idx).name, ItemOf(y.dst, y.dst_idx).name)}})

Langs == SeqToSet(Cfg.languages)
PerLang(Bad(_)) == UNION {Bad(l) : l \in Langs}
TableComplete(t) == {t[i].m : i \in DOMAIN t} = 1..12
FoldConflicts(lang, table, t, val(_)) == {[lang |-> lang, table |-> table, fold |-> t[p[1]].fold, a |-> t[p[1]].w, b |-> t[p[2]].w] : p \in {q \in (DOMAIN t) \X (DOMAIN t) : q[2] > q[1] /\ t[q[2]].fold = t[q[1]].fold /\ val(t[q[2]]) # val(t[q[1]])}}
MonthOf(e) == e.m
TypeOf(e) == e.t
\* what the words mean in their language, diacritics folded (the renderers read the tables from the tree under test, so a word that is
\* bound to another month or unit would be written and expected consistently with the code: the meaning has to come from outside)
MonthAnchor == [january |-> 1, february |-> 2, march |-> 3, april |-> 4, may |-> 5, june |-> 6, july |-> 7, august |-> 8, september |-> 9, october |-> 10,
                november |-> 11, december |-> 12, jan |-> 1, feb |-> 2, mar |-> 3, apr |-> 4, jun |-> 6, jul |-> 7, aug |-> 8, sep |-> 9, oct |-> 10, nov |-> 11, dec |-> 12,
                ocak |-> 1, subat |-> 2, mart |-> 3, nisan |-> 4, mayis |-> 5, haziran |-> 6, temmuz |-> 7, agustos |-> 8, eylul |-> 9, ekim |-> 10, kasim |-> 11, aralik |-> 12,
                oca |-> 1, sub |-> 2, nis |-> 4, haz |-> 6, tem |-> 7, agu |-> 8, eyl |-> 9, eki |-> 10, kas |-> 11, ara |-> 12]
WordAnchor == [day |-> 1, days |-> 1, week |-> 2, weeks |-> 2, month |-> 3, months |-> 3, year |-> 4, years |-> 4, second |-> 5, seconds |-> 5, minute |-> 6, minutes |-> 6,
               hour |-> 7, hours |-> 7, today |-> 8, tomorrow |-> 9, yesterday |-> 10, now |-> 11,
               gun |-> 1, hafta |-> 2, ay |-> 3, yil |-> 4, saniye |-> 5, dakika |-> 6, saat |-> 7, bugun |-> 8, yarin |-> 9, dun |-> 10, simdi |-> 11]
OffAnchor(lang, table, t, anchor, val(_)) ==
  {[lang |-> lang, table |-> table, fold |-> t[i].fold, a |-> t[i].w, b |-> t[i].w] : i \in {j \in DOMAIN t : t[j].fold \in DOMAIN anchor /\ val(t[j]) # anchor[t[j].fold]}}
MonthsComplete ==
  /\ Check("a month has no name", PerLang(LAMBDA l : (IF TableComplete(l.long_months) THEN {} ELSE {[lang |-> l.lang, table |-> "long_months"]})
                                                     \cup (IF TableComplete(l.short_months) THEN {} ELSE {[lang |-> l.lang, table |-> "short_months"]})))
  /\ Check("spellings that differ only by diacritics name different months",
           PerLang(LAMBDA l : FoldConflicts(l.lang, "long_months", l.long_months, MonthOf) \cup FoldConflicts(l.lang, "short_months", l.short_months, MonthOf)))
  /\ Check("a month name is bound to another month",
           PerLang(LAMBDA l : OffAnchor(l.lang, "long_months", l.long_months, MonthAnchor, MonthOf) \cup OffAnchor(l.lang, "short_months", l.short_months, MonthAnchor, MonthOf)))
\* constant types: 1 day 2 week 3 month 4 year 5 second 6 minute 7 hour 8 today 9 tomorrow 10 yesterday 11 now
WordsComplete ==
  /\ Check("a duration unit or day keyword has no word", PerLang(LAMBDA l : {[lang |-> l.lang, type |-> t] : t \in (1..10) \ {l.constants[i].t : i \in DOMAIN l.constants}}))
  /\ Check("a duration word is not a known constant",
           PerLang(LAMBDA l : {[lang |-> l.lang, word |-> w] : w \in SeqToSet(l.duration_group) \ {l.constants[i].w : i \in DOMAIN l.constants}}))
  /\ Check("a duration word is bound to a day keyword",
           PerLang(LAMBDA l : {[lang |-> l.lang, word |-> l.constants[i].w] : i \in {j \in DOMAIN l.constants : l.constants[j].w \in SeqToSet(l.duration_group) /\ l.constants[j].t \notin 1..7}}))
  /\ Check("spellings that differ only by diacritics mean different things", PerLang(LAMBDA l : FoldConflicts(l.lang, "constant_pair", l.constants, TypeOf)))
  /\ Check("a duration word or day keyword is bound to another meaning", PerLang(LAMBDA l : OffAnchor(l.lang, "constant_pair", l.constants, WordAnchor, TypeOf)))
MoneyTablesClosed ==
  /\ Check("alias of an unknown currency", {a \in SeqToSet(Cfg.alias) : a.cur \notin SeqToSet(Cfg.currencies)})
  /\ Check("rate of an unknown currency", {[cur |-> c] : c \in SeqToSet(Cfg.rated) \ SeqToSet(Cfg.currencies)})
  /\ Cfg.rates_positive
ZonesSane == Check("zone offset outside -12 h .. +14 h", {z \in SeqToSet(Cfg.zones) : z.off \notin -720..840})

VARIABLE dummy
Init == dummy = 0
Next == UNCHANGED dummy
=============================================================================
