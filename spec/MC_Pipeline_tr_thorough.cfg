CONSTANT MaxLen = 4
CONSTANT Schedule = "restart"
SPECIFICATION Spec
INVARIANT PatternsShrink
INVARIANT Fixpoint
INVARIANT StepIsFunction
INVARIANT Differ
PROPERTY Shrinks
PROPERTY Terminates
CHECK_DEADLOCK FALSE
