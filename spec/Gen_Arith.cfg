CONSTANT Depth = 2
CONSTANT LitSet = "A"
INIT Init
NEXT Next
INVARIANT Emit
CHECK_DEADLOCK FALSE
