------------------------------ MODULE Gen_Kinds ------------------------------
(***************************************************************************)
(* Generator for the kind algebra (Kinds.tla): every ordered pair of 19     *)
(* representative values of the eight kinds under the four operators, with  *)
(* the value the algebra gives and the property (if any) that fixes the     *)
(* cell.  The driver writes each pair as `A op B` and as a three-line       *)
(* program `a = A / b = B / a op b`.                                        *)
(***************************************************************************)
EXTENDS Meaning, Json
EST == [name |-> "EST", off |-> -300]
UTC == [name |-> "UTC", off |-> 0]
Reps == { Num(QInt(8)), Num(Q(5, 2)), Num(Zero),
          Pct(QInt(25)), Pct(QInt(4)),
          Money(QInt(40), "usd"), Money(QInt(10), "eur"), Money(Q(5, 2), "usd"),
          UnitDur(3, "hour"), UnitDur(2, "day"), DurAdd(UnitDur(1, "hour"), UnitDur(30, "minute")), UnitDur(45, "day"),
          TimeIn(10 * 3600 + 1800, UTC), TimeIn(13 * 3600, EST),
          DateOf(2020, 2, 12),
          DateTime(DateOf(2020, 2, 12).day, 10 * 3600, 0, "UTC"),
          UnitQ(QInt(5), "km"), UnitQ(QInt(300), "m"), UnitQ(QInt(2), "kb") }
VARIABLES a, op, b
Init == a \in Reps /\ b \in Reps /\ op \in Ops4
Next == UNCHANGED <<a, op, b>>
Emit == PrintT(<<"CASE", ToJson([a |-> a, op |-> op, b |-> b] @@ Cell(DefaultCalc, a, op, b))>>)
=============================================================================
