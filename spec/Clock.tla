-------------------------------- MODULE Clock --------------------------------
(***************************************************************************)
(* C11.  Clock times and zones.                                             *)
(*                                                                         *)
(* A wall-clock time is a second of the day (0..86399); a zone is a record  *)
(* [name, off] with off the offset from UTC in minutes (table entry or      *)
(* GMT[+-]h[:mm]); NoZone stands for "no zone written": the calculator's    *)
(* default zone applies.  A time value is Time(sod, off, zone): the UTC     *)
(* second of day of the instant and the zone it is shown in.                *)
(*                                                                         *)
(*   wall time w in zone z      instant  = (w - off(z)) mod 24 h            *)
(*   instant i shown in zone z  wall     = (i + off(z)) mod 24 h            *)
(***************************************************************************)
EXTENDS Duration

DaySecs == 86400
NoZone == [name |-> "", off |-> 0]
ZoneOr(z, default) == IF z.name = "" THEN default ELSE z

\* 12-hour spelling: h in 1..11 (12:xx am/pm is left out of the property)
Wall12(h, m, s, mer) == ((IF mer = "pm" THEN h + 12 ELSE h) * 3600) + m * 60 + s

Instant(w, z) == (w - z.off * 60) % DaySecs
Shown(i, z)   == (i + z.off * 60) % DaySecs
TimeIn(w, z)  == Time(Instant(w, z), z.off, z.name)

\* converting keeps the instant and re-expresses it
ConvertTime(t, z2) == Time(t.sod, z2.off, z2.name)
\* adding or subtracting a duration moves the clock by that amount modulo 24 hours; the zone is kept
ShiftTime(t, op, d) ==
  LET m == DurAbs(d).s IN
  Time(IF op = "+" THEN (t.sod + m) % DaySecs ELSE (t.sod - m) % DaySecs, t.off, t.zone)
\* 'T1 to T2': absolute difference of the two times.  Specified where both are times of the same day in UTC
\* terms (no wrap of wall - offset), so that "difference of the times" has one reading only.
NoWrap(w, z) == (w - z.off * 60) \in 0..(DaySecs - 1)
AbsI(x) == IF x < 0 THEN -x ELSE x
DiffTime(w1, z1, w2, z2) == Dur(0, AbsI((w1 - z1.off * 60) - (w2 - z2.off * 60)))

\* printed form: <<wall second of day, zone name>>
TimePrinted(t) == <<(t.sod + t.off * 60) % DaySecs, t.zone>>
=============================================================================
