CONSTANT N = 7
CONSTANT FullTest = FALSE
SPECIFICATION Spec
INVARIANT OnlyContainment
INVARIANT GuardsDifferOnlyOnContainment
CHECK_DEADLOCK FALSE
