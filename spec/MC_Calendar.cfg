CONSTANT Y1 = 1995
CONSTANT Y2 = 2005
INIT Init
NEXT Next
INVARIANT RoundTrip
INVARIANT Successor
INVARIANT Shifts
INVARIANT DiffSym
INVARIANT Anchors
CHECK_DEADLOCK FALSE
