INIT Init
NEXT Next
INVARIANT Emit
CHECK_DEADLOCK FALSE
