CONSTANT Small = 600
CONSTANT KStep = 1
INIT Init
NEXT Next
INVARIANT Emit
CHECK_DEADLOCK FALSE
