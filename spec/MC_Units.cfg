INIT Init
NEXT Next
INVARIANT KindsNeverMix
INVARIANT Inverse
INVARIANT Transitive
INVARIANT Linear
INVARIANT Definitions
CHECK_DEADLOCK FALSE
