---------------------------- MODULE ClaimsTrace ----------------------------
(***************************************************************************)
(* Validation of recorded span claims against Claims.tla.  One record per   *)
(* evaluated line: the claims in the order the tokenizers made them, each   *)
(* <<s, t, "true" | "false">> (granted or not), taken from the              *)
(* cfg(smartcalc_verif) hook in Tokinizer::add_token_location.              *)
(*  - every decision must be the decision of the code's guard on the spans  *)
(*    granted so far (BAD otherwise: the model does not describe the code); *)
(*  - a granted claim that overlaps a granted span is reported (INFO): by   *)
(*    Claims!OnlyContainment it strictly contains it - the line then has    *)
(*    two tokens over the same bytes.                                       *)
(***************************************************************************)
EXTENDS Naturals, Sequences, FiniteSets, TLC, Json, IOUtils
Rec == ndJsonDeserialize(IOEnv.TRACE)
VARIABLE l
Overlap(p, q) == p[1] < q[2] /\ q[1] < p[2]
CodeGuardRefuses(G, p) == \E g \in G : (g[1] <= p[1] /\ g[2] > p[1]) \/ (g[1] < p[2] /\ g[2] >= p[2])
\* run the claims of one line: [G |-> granted spans, wrong |-> indices whose decision differs, inside |-> granted claims that contain a granted span]
RECURSIVE Run(_, _, _)
Run(cs, i, acc) ==
  IF i > Len(cs) THEN acc
  ELSE LET p == <<cs[i][1], cs[i][2]>>
           refused == CodeGuardRefuses(acc.G, p)
           said == cs[i][3] = "false"
       IN  Run(cs, i + 1, [G |-> IF said THEN acc.G ELSE acc.G \cup {p},
                           wrong |-> IF refused # said THEN acc.wrong \cup {i} ELSE acc.wrong,
                           inside |-> IF ~said /\ \E g \in acc.G : Overlap(g, p) THEN acc.inside \cup {i} ELSE acc.inside])
Judge(r) == LET x == Run(r.claims, 1, [G |-> {}, wrong |-> {}, inside |-> {}]) IN
            \* (IF, not a disjunction: inside an action TLC explores every disjunct)
            /\ (IF x.wrong = {} THEN TRUE ELSE PrintT(<<"BAD", ToJson([l |-> l, wrong |-> x.wrong])>>))
            /\ (IF x.inside = {} THEN TRUE ELSE PrintT(<<"INFO", ToJson([l |-> l, containing |-> x.inside])>>))
Init == l = 1
Next == l <= Len(Rec) /\ Judge(Rec[l]) /\ l' = l + 1
Spec == Init /\ [][Next]_l
Accepted == TLCGet("stats").diameter - 1 = Len(Rec)
=============================================================================
