------------------------------- MODULE MC_Unix -------------------------------
(***************************************************************************)
(* Design-level check of the C14 oracle: to date-time and back is the       *)
(* identity for every zone offset of a set, the printed local date-time     *)
(* re-read as a civil date and wall time gives the instant again, and       *)
(* midnight of a date maps to a multiple of 86400.                          *)
(***************************************************************************)
EXTENDS UnixTime
Offs == {-720, -690, -300, 0, 60, 330, 345, 840}
Z(o) == [name |-> "Z", off |-> o]
VARIABLE t
Init == t \in {[d |-> d, s |-> s] : d \in {-719162, -719161, -25567, -1, 0, 1, 59, 60, 10957, 11016, 11017, 19782, 24855, 2932895}
                                        \cup {k * 7919 - 700000 : k \in 0..450}, s \in {0, 1, 3661, 43200, 86399}}
Next == UNCHANGED t
RoundTrip == \A o \in Offs : DateTimeToUnix(FromUnix(t, Z(o))) = Ts(t.d, t.s)
LocalReadBack == \A o \in Offs :
   LET v == FromUnix(t, Z(o))
       loc == Ts(v.d, v.s + o * 60)
       c == CivilFromDays(loc.d)
   IN  /\ ValidCivil(c.y, c.m, c.d) \/ c.y \in {0, 10000}
       /\ Ts(DaysFromCivil(c.y, c.m, c.d), loc.s - o * 60) = Ts(t.d, t.s)
       /\ DateTimePrintedOk(v, 0, <<c.d, c.m, c.y, loc.s, "Z">>)
Midnight == DateToUnix(Date(t.d)) = Ts(t.d, 0) /\ Ts(t.d, 86400 + t.s) = Ts(t.d + 1, t.s) /\ Ts(t.d, t.s - 86400) = Ts(t.d - 1, t.s)
=============================================================================
