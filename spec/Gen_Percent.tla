----------------------------- MODULE Gen_Percent -----------------------------
(***************************************************************************)
(* C05 generator: every percentage phrase over the value and percentage     *)
(* sets (negative, zero, fractional, large), plain and as money in the      *)
(* currencies the driver names.                                             *)
(***************************************************************************)
EXTENDS Meaning, Json, IOUtils
Consts == JsonDeserialize(IOEnv.CONSTS)
SeqSet(s) == {s[i] : i \in DOMAIN s}
Curs == SeqSet(Consts.curs) \cup {""}
Vals == {QInt(-40), Zero, Q(1, 2), QInt(7), QInt(40), QInt(1100)}
Pcts == {QInt(-6), Zero, Q(5, 2), QInt(6), QInt(100), QInt(150)}
BigPcts == {Q(12345, 10), QInt(1000000)}      \* percentages that are written with a grouping separator and a fraction
O(q, c) == [q |-> q, cur |-> c]
Lines == {[form |-> "pct_phrase", w |-> w, p |-> p, x |-> O(x, c)] : w \in {"+", "-", "of", "on", "off"}, p \in Pcts, x \in Vals, c \in Curs}
    \cup {[form |-> "pct_phrase", w |-> w, p |-> p, x |-> O(x, "")] : w \in {"+", "of", "off"}, p \in BigPcts, x \in {QInt(200), Q(1, 2)}}
    \cup {[form |-> "pct_total", a |-> O(QInt(200), ""), p |-> p] : p \in BigPcts}
    \cup {[form |-> "pct_what", a |-> O(a, c), b |-> O(b, c)] : a \in Vals, b \in Vals, c \in Curs}
    \cup {[form |-> "pct_total", a |-> O(a, c), p |-> p] : a \in Vals, p \in Pcts, c \in Curs}
VARIABLE line
Init == line \in Lines
Next == UNCHANGED line
Ctx0 == [calc |-> DefaultCalc, lang |-> "en", today |-> 0, env |-> EmptyEnv]
Emit == PrintT(<<"CASE", ToJson([line |-> line, expected |-> LineMeaning(Ctx0, line).slot])>>)
=============================================================================
