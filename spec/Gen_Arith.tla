------------------------------ MODULE Gen_Arith ------------------------------
(***************************************************************************)
(* C02 generator: TLC enumerates every expression tree of depth <= Depth    *)
(* over Lits (plus suffixed literals to depth 1) and prints, per tree, the  *)
(* token spellings to replay and the value the specification assigns.       *)
(* Trees whose token form contains a quotient chain that reads as a         *)
(* day/month/year are outside C02's domain (they are dates, C09).           *)
(***************************************************************************)
EXTENDS Meaning, FiniteSets, Json, TLC
CONSTANT Depth, LitSet

Ops == {"+", "-", "*", "/"}
Step(S) == S \cup {Bin(o, a, b) : o \in Ops, a \in S, b \in S} \cup {Par(a) : a \in S} \cup {Neg(a) : a \in S}
LitsA == {Lit(0, 1), Lit(1, 2), Lit(2, 1)}
LitsB == {Lit(0, 1), Lit(1, 2), Lit(2, 1), Lit(7, 1), Lit(5, 4)}
Lits == IF LitSet = "A" THEN LitsA ELSE LitsB
SLits == {LitS(3, 1, "k"), LitS(1, 2, "M"), Lit(2, 1)}
BigLits == SLits \cup {LitS(5, 1, "G"), LitS(2, 1, "T"), LitS(7, 2, "P"), LitS(3, 1, "Z"), LitS(2, 1, "Y")}
SufTrees == Step(SLits) \cup BigLits \cup {Bin(o, a, b) : o \in {"*", "/"}, a \in BigLits, b \in SLits}
                        \cup {Bin(o, a, a) : o \in Ops, a \in BigLits} \cup {Neg(a) : a \in BigLits}
RECURSIVE Trees(_)
Trees(n) == IF n = 0 THEN Lits ELSE Step(Trees(n - 1))

VARIABLE e
Init == e \in Trees(Depth) \cup SufTrees
Next == UNCHANGED e

PlusBetweenLits(toks) == {i \in 2..(Len(toks) - 1) : toks[i].k = "op" /\ toks[i].c = "+" /\ toks[i-1].k = "num" /\ toks[i+1].k = "num"}
DropAt(toks, i) == SubSeq(toks, 1, i - 1) \o SubSeq(toks, i + 1, Len(toks))
MinOf(S) == CHOOSE x \in S : \A y \in S : x <= y

Emit ==
  LET toks == Unparse(e, 0, FALSE)
      full == UnparseFull(e)
      adj  == PlusBetweenLits(toks)
      v    == TreeValue(e)
      atoks == IF adj = {} THEN <<>> ELSE DropAt(toks, MinOf(adj))
  IN  PrintT(<<"CASE", ToJson([value |-> v, min |-> toks, full |-> full, adj |-> atoks,
                                 exp_min  |-> ArithMeaning(toks),
                                 exp_full |-> ArithMeaning(full),
                                 exp_adj  |-> IF atoks = <<>> THEN Unspec ELSE ArithMeaning(atoks)])>>)
=============================================================================
