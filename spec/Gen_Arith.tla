------------------------------ MODULE Gen_Arith ------------------------------
(***************************************************************************)
(* C02 generator: TLC enumerates every expression tree of depth <= Depth    *)
(* over Lits (plus suffixed literals to depth 1) and prints, per tree, the  *)
(* token spellings to replay and the value the specification assigns.       *)
(* Trees whose token form contains a quotient chain that reads as a         *)
(* day/month/year are outside C02's domain (they are dates, C09).           *)
(***************************************************************************)
EXTENDS Meaning, FiniteSets, Json, TLC
CONSTANT Depth, LitSet

Ops == {"+", "-", "*", "/"}
Step(S) == S \cup {Bin(o, a, b) : o \in Ops, a \in S, b \in S} \cup {Par(a) : a \in S} \cup {Neg(a) : a \in S}
LitsA == {Lit(0, 1), Lit(1, 2), Lit(2, 1)}
LitsB == {Lit(0, 1), Lit(1, 2), Lit(2, 1), Lit(7, 1), Lit(5, 4)}
Lits == IF LitSet = "A" THEN LitsA ELSE LitsB
SLits == {LitS(3, 1, "k"), LitS(1, 2, "M"), Lit(2, 1)}
BigLits == SLits \cup {LitS(5, 1, "G"), LitS(2, 1, "T"), LitS(7, 2, "P"), LitS(3, 1, "Z"), LitS(2, 1, "Y")}
SufTrees == Step(SLits) \cup BigLits \cup {Bin(o, a, b) : o \in {"*", "/"}, a \in BigLits, b \in SLits}
                        \cup {Bin(o, a, a) : o \in Ops, a \in BigLits} \cup {Neg(a) : a \in BigLits}
RECURSIVE Trees(_), HasTiny(_)
Trees(n) == IF n = 0 THEN Lits ELSE Step(Trees(n - 1))

\* literals too small for TLC's 32-bit rationals: 10^-k, written out as 0,00..01.  Their trees are emitted with
\* the tree itself as the expectation ("f64tree"): the driver evaluates the tree in double precision in exactly the
\* order the tree prescribes (the statement speaks of the double-precision value), the specification supplies the
\* structure (precedence, associativity, grouping).
Tiny(k) == [t |-> "lit", m |-> <<1, 1>>, sfx |-> "", tiny |-> k]
TinyLits == {Tiny(16), Tiny(17), Tiny(20), Lit(1, 1), Lit(3, 1)}
TinyTrees == {Bin(o, a, b) : o \in Ops, a \in TinyLits, b \in TinyLits}
        \cup {Bin(o, a, Bin(p, b, c)) : o \in {"/", "*"}, p \in {"+", "-", "*"}, a \in {Lit(3, 1)}, b \in TinyLits, c \in {Tiny(16), Tiny(17)}}
        \cup {Bin(o, Bin("/", a, b), c) : o \in {"+", "/"}, a \in {Lit(3, 1), Tiny(20)}, b \in {Tiny(16), Tiny(17)}, c \in TinyLits}
HasTiny(x) == CASE x.t = "lit" -> "tiny" \in DOMAIN x [] x.t \in {"par", "neg", "pos"} -> HasTiny(x.e) [] x.t = "bin" -> HasTiny(x.l) \/ HasTiny(x.r)
\* sign prefixes stacked on each other and on parentheses, as operand on either side of an operator (`3 * - + 5`, `- + (2 - 7)`, `+ - 2 / 4`)
SignLits == {Lit(2, 1), Lit(5, 4), Lit(7, 1)}
Signed == UNION {{Neg(Pos(a)), Pos(Neg(a)), Pos(Pos(a)), Pos(a), Neg(Pos(Par(Bin("-", a, Lit(7, 1))))), Pos(Par(Bin("+", a, Lit(1, 2))))} : a \in SignLits}
SignTrees == Signed \cup {Bin(o, a, b) : o \in Ops, a \in {Lit(3, 1)}, b \in Signed} \cup {Bin(o, b, a) : o \in Ops, a \in {Lit(3, 1)}, b \in Signed}

VARIABLE e
Init == e \in Trees(Depth) \cup SufTrees \cup {x \in TinyTrees : HasTiny(x)} \cup SignTrees
Next == UNCHANGED e

PlusBetweenLits(toks) == {i \in 2..(Len(toks) - 1) : toks[i].k = "op" /\ toks[i].c = "+" /\ toks[i-1].k = "num" /\ toks[i+1].k = "num"}
DropAt(toks, i) == SubSeq(toks, 1, i - 1) \o SubSeq(toks, i + 1, Len(toks))
MinOf(S) == CHOOSE x \in S : \A y \in S : x <= y

TokOf(x) == IF "tiny" \in DOMAIN x THEN [k |-> "num", m |-> x.m, sfx |-> x.sfx, tiny |-> x.tiny] ELSE [k |-> "num", m |-> x.m, sfx |-> x.sfx]
RECURSIVE UnparseT(_, _, _)
UnparseT(x, p, right) ==   \* Unparse for trees with tiny literals (keeps the marker on the token)
  CASE x.t = "lit" -> <<TokOf(x)>>
    [] x.t = "par" -> <<TLp>> \o UnparseT(x.e, 0, FALSE) \o <<TRp>>
    [] x.t = "neg" -> <<TOp("-")>> \o UnparseT(x.e, 3, FALSE)
    [] x.t = "bin" ->
         LET need  == Prec(x.op) < p \/ (right /\ Prec(x.op) = p)
             inner == UnparseT(x.l, Prec(x.op), FALSE) \o <<TOp(x.op)>> \o UnparseT(x.r, Prec(x.op), TRUE)
         IN  IF need THEN <<TLp>> \o inner \o <<TRp>> ELSE inner
F64 == [k |-> "f64tree"]
Emit ==
  IF HasTiny(e)
  THEN PrintT(<<"CASE", ToJson([tree |-> e, min |-> UnparseT(e, 0, FALSE), full |-> <<>>, adj |-> <<>>,
                                  exp_min |-> F64, exp_full |-> Unspec, exp_adj |-> Unspec])>>)
  ELSE
  LET toks == Unparse(e, 0, FALSE)
      full == UnparseFull(e)
      adj  == PlusBetweenLits(toks)
      v    == TreeValue(e)
      atoks == IF adj = {} THEN <<>> ELSE DropAt(toks, MinOf(adj))
  IN  PrintT(<<"CASE", ToJson([value |-> v, tree |-> e, min |-> toks, full |-> full, adj |-> atoks,
                                 exp_min  |-> ArithMeaning(toks),
                                 exp_full |-> ArithMeaning(full),
                                 exp_adj  |-> IF atoks = <<>> THEN Unspec ELSE ArithMeaning(atoks)])>>)
=============================================================================
