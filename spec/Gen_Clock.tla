------------------------------ MODULE Gen_Clock ------------------------------
(***************************************************************************)
(* C11 generator.  The zone table (name, offset) of the tree under test is  *)
(* read from the JSON file named by the environment variable ZONES, which   *)
(* the driver writes from config.json: the property speaks of "the table".  *)
(***************************************************************************)
EXTENDS Meaning, Json, IOUtils
CONSTANT Full     \* TRUE: all ordered zone pairs (thorough tier)

ZFile == JsonDeserialize(IOEnv.ZONES)
SeqSet(s) == {s[i] : i \in DOMAIN s}
AllZones == SeqSet(ZFile.all)         \* every usable table zone and the GMT forms
SubZones == SeqSet(ZFile.sub)         \* a stratified subset (both signs, half-hour offsets)
DefZones == SeqSet(ZFile.defaults)    \* default zones to run under (the first one is UTC)
Utc == ZFile.defaults[1]

Walls == {0, 1800, 32707, 41400, 43200, 84600, 86399}
CWalls == {1800, 32707, 84600}
P(n, u) == [n |-> n, u |-> u]
Shifts == {<<P(1, "second")>>, <<P(59, "minute")>>, <<P(1, "hour")>>, <<P(13, "hour")>>, <<P(25, "hour")>>,
           <<P(1, "day"), P(1, "second")>>, <<P(90, "minute"), P(30, "second")>>}

TLit(w, z) == [form |-> "time_lit", w |-> w, z |-> z]
LinesFor(def) ==
  LET ZS == IF def = Utc THEN AllZones ELSE SubZones
      PZ == IF Full /\ def = Utc THEN AllZones ELSE SubZones
  IN   {TLit(w, z) : w \in Walls, z \in ZS \cup {NoZone}}
  \cup {[form |-> "time_conv", w |-> w, z |-> z, z2 |-> z2] : w \in CWalls, z \in PZ \cup {NoZone}, z2 \in PZ}
  \cup {[form |-> "time_shift", w |-> w, z |-> z, op |-> o, parts |-> d] :
            w \in {0, 41400, 86399}, z \in {NoZone} \cup {x \in SubZones : x.off \in {-300, 330}}, o \in {"+", "-"}, d \in Shifts}
  \cup {[form |-> "time_diff", w |-> w1, z |-> z, w2 |-> w2, z2 |-> z] :
            w1 \in Walls, w2 \in Walls, z \in {NoZone} \cup {x \in SubZones : x.off \in {-300, 330}}}
  \cup {[form |-> "time_diff", w |-> w1, z |-> z1, w2 |-> w2, z2 |-> z2] :
            w1 \in {41400, 43200}, w2 \in {32707, 43200}, z1 \in {x \in SubZones : x.off \in {-300, 60}}, z2 \in {x \in SubZones : x.off \in {0, 330}}}

VARIABLE c
Init == \E d \in DefZones : \E l \in LinesFor(d) : c = [def |-> d, line |-> l]
Next == UNCHANGED c
Ctx0 == [calc |-> [DefaultCalc EXCEPT !.tz = c.def], lang |-> "en", today |-> 0, env |-> EmptyEnv]
Emit == PrintT(<<"CASE", ToJson([def |-> c.def, line |-> c.line, expected |-> WithPrint(LineMeaning(Ctx0, c.line).slot)])>>)
=============================================================================
