----------------------------- MODULE Gen_Session -----------------------------
(***************************************************************************)
(* C04 generator: every history of exactly MaxDepth calls over              *)
(*   execute(t), set_text(s, t), execute_session(s)     s in {s1, s2}       *)
(* on one long-lived calculator, t from five texts of 1..3 lines that mix   *)
(* assignments, uses, a copy and a failing line; execute_session only after *)
(* a set_text on that session.  Every call carries the observation the      *)
(* specification expects; by the specification they are those of a fresh    *)
(* calculator, so independence from the history is checked by the replay.   *)
(* The history is the state (SmartCalc's variables are functions of it).    *)
(***************************************************************************)
EXTENDS SmartCalc, Json
CONSTANT MaxDepth

Foo == <<"foo">>
Bar == <<"bar">>
W(ws) == [k |-> "words", ws |-> ws]
NumTok(x) == [k |-> "num", m |-> <<x, 1>>, sfx |-> ""]
Assign(n, rhs) == [form |-> "assign", name |-> n, rhs |-> rhs]
LitL(v) == [form |-> "lit", v |-> v]
Use(toks) == [form |-> "use", toks |-> toks]
FailL == [form |-> "fail", name |-> <<>>]
N(x) == Num(QInt(x))

Texts == <<
  << Assign(Foo, LitL(N(1))) >>,
  << Assign(Bar, LitL(N(2))), Use(<<W(Foo)>>) >>,
  << Use(<<W(Foo)>>), FailL, Use(<<W(Bar)>>) >>,
  << Assign(Foo, LitL(N(7))), Assign(Bar, Use(<<W(Foo), TOp("+"), NumTok(1)>>)), Use(<<W(Bar)>>) >>,
  << Assign(Foo, Use(<<W(Bar), TOp("*"), NumTok(2)>>)) >>
>>
Sessions == {"s1", "s2"}

VARIABLE hist
gvars == <<vars, hist>>

GInit == /\ calc = DefaultCalc /\ run = NoRun /\ today = 0 /\ last = [call |-> "none"]
         /\ sess = [s \in Sessions |-> [NewSess EXCEPT !.lang = "en"]]
         /\ hist = <<>>

GNext ==
  /\ Len(hist) < MaxDepth
  /\ \/ \E t \in DOMAIN Texts :
          /\ Execute("en", Texts[t])
          /\ hist' = Append(hist, [call |-> "execute", t |-> t, slots |-> last'.slots])
     \/ \E s \in Sessions, t \in DOMAIN Texts :
          /\ SetText(s, Texts[t])
          /\ hist' = Append(hist, [call |-> "set_text", s |-> s, t |-> t])
     \/ \E s \in Sessions :
          /\ ExecSession(s)
          /\ hist' = Append(hist, [call |-> "execute_session", s |-> s, slots |-> last'.slots])

Emit == Len(hist) = MaxDepth => PrintT(<<"CASE", ToJson([hist |-> hist])>>)
EmitTexts == hist = <<>> => PrintT(<<"INFO", ToJson([texts |-> Texts])>>)
\* design-level properties on every generated behaviour
=============================================================================
