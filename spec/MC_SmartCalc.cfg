CONSTANT NTexts = 3
CONSTANT WithEnv = FALSE
SPECIFICATION MCSpec
INVARIANT SlotPerLine
INVARIANT LoopIsRunLines
INVARIANT LatestBinding
INVARIANT FailKeepsEnv
INVARIANT HistoryIndependent
INVARIANT SepIndependent
PROPERTY EvalFramesCalc
PROPERTY ExecuteIsPrivate
PROPERTY SessionIsolation
CHECK_DEADLOCK FALSE
