CONSTANT NTexts = 4
CONSTANT WithEnv = TRUE
SPECIFICATION MCSpec
INVARIANT SlotPerLine
INVARIANT LoopIsRunLines
INVARIANT LatestBinding
INVARIANT FailKeepsEnv
INVARIANT HistoryIndependent
INVARIANT SepIndependent
PROPERTY EvalFramesCalc
PROPERTY ExecuteIsPrivate
PROPERTY SessionIsolation
CHECK_DEADLOCK FALSE
