CONSTANT MaxDepth = 4
CONSTANT Which = "fams"
INIT GInit
NEXT GNext
INVARIANT Emit
INVARIANT RegistryIsReplay
INVARIANT RetsOk
INVARIANT DupRejected
PROPERTY EvalFramesCalc
CHECK_DEADLOCK FALSE
