----------------------------- MODULE MC_Percent -----------------------------
(***************************************************************************)
(* Design-level check of the C05 and C06 oracles on small rationals: the    *)
(* percentage formulas are mutually consistent, and currency conversion     *)
(* over exact rates is the identity on equal currencies, transitive,        *)
(* invertible, and consistent with money arithmetic.                        *)
(***************************************************************************)
EXTENDS Money
Vals == {QInt(-40), Zero, Q(1, 2), QInt(7), QInt(40), QInt(1100)}
Pcts == {QInt(-6), Zero, Q(5, 2), QInt(6), QInt(100), QInt(150)}
VARIABLES x, p
Init == x \in Vals /\ p \in Pcts
Next == UNCHANGED <<x, p>>
OnIsOfPlus   == PctOn(p, x) = QAdd(x, PctOf(p, x)) /\ PctOff(p, x) = QSub(x, PctOf(p, x))
OnOffSum     == QAdd(PctOn(p, x), PctOff(p, x)) = QMul(QInt(2), x)
WhatInverts  == (x # Zero) => PctWhat(PctOf(p, x), x) = p
TotalInverts == (p # Zero) => PctTotal(PctOf(p, x), p) = x
ZeroDivisor  == PctWhat(x, Zero) = Zero /\ PctTotal(x, Zero) = Zero
Formulas     == /\ PctOf(p, x) = QDiv(QMul(p, x), QInt(100))
                /\ PctOn(QInt(100), x) = QMul(QInt(2), x) /\ PctOff(QInt(100), x) = Zero /\ PctOf(Zero, x) = Zero

Rates == <<[cur |-> "usd", q |-> One], [cur |-> "eur", q |-> Q(5, 2)], [cur |-> "try", q |-> QInt(8)], [cur |-> "gbp", q |-> Q(3, 4)]>>
Calc == [rates |-> Rates, alias |-> [dollar |-> "usd", tl |-> "try"], codes |-> {"usd", "eur", "try", "gbp", "jpy"}]
Curs == {"usd", "eur", "try", "gbp"}
ConvIdentity   == \A a \in Curs : Convert(Calc, x, a, a) = Money(x, a)
ConvTransitive == \A a, b, c \in Curs : ConvQ(Calc, ConvQ(Calc, x, a, b), b, c) = ConvQ(Calc, x, a, c)
ConvInverse    == \A a, b \in Curs : ConvQ(Calc, ConvQ(Calc, x, a, b), b, a) = x
ConvFormula    == Convert(Calc, QInt(10), "usd", "try") = Money(QInt(80), "try") /\ Convert(Calc, QInt(10), "eur", "usd") = Money(QInt(4), "usd")
                  /\ Convert(Calc, QInt(10), "jpy", "usd").k = "term"
ArithOk == \A a, b \in Curs :
   /\ MoneyArith(Calc, [q |-> x, cur |-> a], "+", [q |-> p, cur |-> b]) = Money(QAdd(x, ConvQ(Calc, p, b, a)), a)
   /\ MoneyArith(Calc, [q |-> x, cur |-> a], "*", [q |-> p, cur |-> ""]) = Money(QMul(x, p), a)
   /\ MoneyArith(Calc, [q |-> x, cur |-> a], "/", [q |-> x, cur |-> a]) = Num(IF x = Zero THEN Zero ELSE One)
CanonOk == Canon(Calc, "dollar") = "usd" /\ Canon(Calc, "usd") = "usd" /\ Canon(Calc, "zzz") = "none" /\ Canon(Calc, "tl") = "try"
RateFrame == LET c2 == SetRate(Calc, "eur", QInt(3)) IN
             /\ Override(c2, "eur") = QInt(3) /\ \A a \in Curs \ {"eur"} : Override(c2, a) = Override(Calc, a)
             /\ Len(c2.rates) = Len(Calc.rates) /\ Len(SetRate(Calc, "jpy", One).rates) = 5
=============================================================================
