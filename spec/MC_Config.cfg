CONSTANT Strict = FALSE
INIT Init
NEXT Next
INVARIANT AllKnown
INVARIANT ChainsInvert
INVARIANT ChainsAreStandard
INVARIANT BridgesInvert
INVARIANT BridgesAreStandard
INVARIANT MonthsComplete
INVARIANT WordsComplete
INVARIANT MoneyTablesClosed
INVARIANT ZonesSane
CHECK_DEADLOCK FALSE
