---------------------------- MODULE MC_NumFormat ----------------------------
(***************************************************************************)
(* Design-level check of the C07 oracle on decimal shapes: reading a        *)
(* printed string back (dropping the grouping separator) gives a value      *)
(* within half a unit of the last printed digit of the input, grouping      *)
(* inserts a separator exactly before every third digit from the right,     *)
(* the fraction is absent exactly when removal is on and its digits are     *)
(* zero, and negative values carry a '-'.                                   *)
(***************************************************************************)
EXTENDS NumFormat, FiniteSets
IPs == {<<0>>, <<9>>, <<9, 9>>, <<9, 9, 9>>, <<1, 0, 0, 0>>, <<9, 9, 9, 9, 9, 9>>, <<1, 2, 3, 4, 5, 6, 7>>}
FDs == {0, 4, 5, 9}
VARIABLES v, fmt
Init == /\ v \in {[neg |-> n, ip |-> ip, fp |-> <<a, b, c>>, sticky |-> st, sip |-> ip, sfp |-> <<a, b, c>>] :
                     n \in BOOLEAN, ip \in IPs, a \in FDs, b \in FDs, c \in FDs, st \in BOOLEAN}
        /\ fmt \in {[d |-> d, remove |-> r, round |-> TRUE, dec |-> <<",">>, tho |-> t] : d \in 0..3, r \in BOOLEAN, t \in {<<".">>, <<>>}}
Next == UNCHANGED <<v, fmt>>
Outs == NumberStrings(v, fmt)
IsDigitCh(c) == c \in {Ch(i) : i \in 0..9}
NonEmpty == Outs # {} /\ Cardinality(Outs) <= 4
WellFormed == \A o \in Outs :
   LET body == IF o # <<>> /\ o[1] = "-" THEN Tail(o) ELSE o
       di == {i \in DOMAIN body : body[i] = ","}
   IN  /\ Cardinality(di) <= 1
       /\ (o # <<>> /\ o[1] = "-") => v.neg
       /\ \A i \in DOMAIN body : IsDigitCh(body[i]) \/ body[i] \in {",", "."}
       /\ (di # {}) => LET p == CHOOSE i \in di : TRUE IN
                         /\ Len(body) - p = fmt.d                                  \* exactly d fraction digits
                         /\ ~(fmt.remove /\ \A j \in (p + 1)..Len(body) : body[j] = "0")
       /\ (di = {} /\ fmt.d > 0) => fmt.remove                                      \* fraction only dropped under removal
GroupingOk == \A o \in Outs :
   LET body == IF o # <<>> /\ o[1] = "-" THEN Tail(o) ELSE o
       di == {i \in DOMAIN body : body[i] = ","}
       int == IF di = {} THEN body ELSE SubSeq(body, 1, (CHOOSE i \in di : TRUE) - 1)
   IN  IF fmt.tho = <<>> THEN \A i \in DOMAIN int : int[i] # "."
       ELSE \A i \in DOMAIN int : (int[i] = ".") <=> ((Len(int) - i + 1) % 4 = 0)
Anchors ==
   /\ NumberStrings([neg |-> FALSE, ip |-> <<0>>, fp |-> <<9, 9, 5>>, sticky |-> FALSE, sip |-> <<0>>, sfp |-> <<9, 9, 5>>],
                    [d |-> 2, remove |-> TRUE, round |-> TRUE, dec |-> <<",">>, tho |-> <<".">>]) = {<<"0", ",", "9", "9">>, <<"1">>}
   /\ NumberStrings([neg |-> FALSE, ip |-> <<0>>, fp |-> <<9, 9, 4, 9>>, sticky |-> TRUE, sip |-> <<0>>, sfp |-> <<>>],
                    [d |-> 2, remove |-> TRUE, round |-> TRUE, dec |-> <<",">>, tho |-> <<".">>]) = {<<"0", ",", "9", "9">>}
   /\ NumberStrings([neg |-> TRUE, ip |-> <<9, 9, 9, 9, 9, 9>>, fp |-> <<9, 9, 6>>, sticky |-> FALSE, sip |-> <<0>>, sfp |-> <<>>],
                    [d |-> 2, remove |-> FALSE, round |-> TRUE, dec |-> <<",">>, tho |-> <<".">>]) = {<<"-", "1", ".", "0", "0", "0", ".", "0", "0", "0", ",", "0", "0">>}
   /\ Printed("money", [neg |-> FALSE, ip |-> <<5>>, fp |-> <<>>, sticky |-> FALSE, sip |-> <<5>>, sfp |-> <<>>],
              [d |-> 2, remove |-> FALSE, round |-> TRUE, dec |-> <<",">>, tho |-> <<".">>], [sym |-> <<"$">>, left |-> TRUE, space |-> FALSE]) = {<<"$", "5", ",", "0", "0">>}
=============================================================================
