SPECIFICATION Spec
POSTCONDITION Accepted
CHECK_DEADLOCK FALSE
