------------------------------ MODULE Meaning ------------------------------
(***************************************************************************)
(* The meaning of one abstract line (DESIGN 4.4).  A line is a record with  *)
(* a field "form" naming the phrase form and the form's semantic            *)
(* arguments; spelling choices never occur here.  The result is an          *)
(* abstract value                                                           *)
(*    [k |-> "num", q |-> <<n,d,e>>]       plain number                      *)
(*    [k |-> "empty"]                      nothing to evaluate               *)
(*    [k |-> "any"]                        the specification does not say    *)
(*                                         (outside the stated domain)       *)
(* (further kinds are added by the modules of the other properties).        *)
(* The semantics is deliberately partial: outside the domain the            *)
(* properties quantify over, the meaning is "any" and only C01 applies.     *)
(***************************************************************************)
EXTENDS Arith

Unspec   == [k |-> "any"]
Empty == [k |-> "empty"]
Num(q) == [k |-> "num", q |-> q]

ArithMeaning(toks) ==
  IF DateLike(toks) THEN Unspec
  ELSE LET r == ArithLine(toks) IN IF r.ok THEN Num(r.v) ELSE Unspec

\* ctx = [calc |-> calculator configuration, lang |-> language, today |-> day number, env |-> bindings]
LineMeaning(ctx, line) ==
  CASE line.form = "arith"   -> [slot |-> ArithMeaning(line.toks), env |-> ctx.env]
    [] line.form = "blank"   -> [slot |-> Empty, env |-> ctx.env]
    [] OTHER                 -> [slot |-> Unspec, env |-> ctx.env]

(***************************************************************************)
(* Does an observed slot (projection of what the code returned) agree with  *)
(* the meaning?  Observed records: [k |-> "num", q |-> ...] or              *)
(* [k |-> "num", irr |-> TRUE] when the value is not a small rational,      *)
(* [k |-> "err"], [k |-> "empty"], ...                                      *)
(***************************************************************************)
Has(r, f) == f \in DOMAIN r
Matches(exp, obs) ==
  CASE exp.k = "any"   -> TRUE
    [] exp.k = "empty" -> obs.k = "empty"
    [] exp.k = "num"   -> obs.k = "num" /\ Has(obs, "q") /\ obs.q = exp.q
    [] OTHER           -> FALSE
=============================================================================
