------------------------------ MODULE Meaning ------------------------------
(***************************************************************************)
(* The meaning of one abstract line (DESIGN 4.4).  A line is a record with  *)
(* a field "form" naming the phrase form and the form's semantic            *)
(* arguments; spelling choices (spacing, letter case, separators, synonyms, *)
(* comments, language) never occur here, so invariance under them is true   *)
(* of the specification by construction and is a pure conformance           *)
(* obligation on the code.                                                  *)
(*                                                                         *)
(* LineMeaning(ctx, line) = [slot |-> value, env |-> bindings afterwards]   *)
(* with ctx = [calc, lang, today, env].  The semantics is deliberately      *)
(* partial: outside the domain the properties quantify over the slot is     *)
(* Unspec and only C01 (some slot, no panic) applies.                       *)
(***************************************************************************)
EXTENDS Env, UiSpans, TLC

ArithMeaning(toks) ==
  IF DateLike(toks) THEN Unspec
  ELSE LET r == ArithLine(toks) IN IF r.ok THEN Num(r.v) ELSE Unspec

\* a line that is expected to fail; whether it does is observed, the specification only says what
\* follows from it: an error slot leaves the bindings unchanged (C03)
Fails == [k |-> "fails"]

\* a date operand: a civil date (y = 0: no year written, the current year is meant) or a day relative to today
DateOperand(o, today) ==
  IF "rel" \in DOMAIN o THEN Date(today + o.rel)
  ELSE LET y == IF o.y = 0 THEN YearOfDay(today) ELSE o.y IN
       IF ValidCivil(y, o.m, o.d) THEN DateOf(y, o.m, o.d) ELSE NotDate

(***************************************************************************)
(* A binding holds a value of any kind, and a later line may compute with   *)
(* it (C03).  Specified for the two-operand expressions whose meaning the   *)
(* other properties fix:  value op value  and  value op number.             *)
(***************************************************************************)
OperandOfVal(t) ==    \* a substituted token as an operand record of the kind-specific modules
  IF t.k = "val" THEN t.v ELSE IF t.k = "num" THEN Num(LitValue(t)) ELSE Unspec
MixedValue(calc, s) ==
  IF Len(s) # 3 \/ s[2].k # "op" THEN Unspec
  ELSE LET a == OperandOfVal(s[1])  b == OperandOfVal(s[3])  o == s[2].c IN
       CASE a.k = "money" /\ b.k = "money" /\ o \in {"+", "-", "/"} -> MoneyArith(calc, [q |-> a.q, cur |-> a.cur], o, [q |-> b.q, cur |-> b.cur])
         [] a.k = "money" /\ b.k = "num" /\ o \in {"*", "/"} -> MoneyArith(calc, [q |-> a.q, cur |-> a.cur], o, [q |-> b.q, cur |-> ""])
         [] a.k = "unit" /\ b.k = "unit" /\ o \in {"+", "-", "/"} -> UnitArith([q |-> a.q, u |-> a.u], o, [q |-> b.q, u |-> b.u])
         [] a.k = "unit" /\ b.k = "num" /\ o \in {"*", "/"} -> UnitArith([q |-> a.q, u |-> a.u], o, [q |-> b.q, u |-> ""])
         [] a.k = "dur" /\ b.k = "dur" /\ o = "+" -> DurAdd(a, b)
         [] a.k = "dur" /\ b.k = "dur" /\ o = "-" -> DurSub(a, b)
         [] a.k \in {"num", "money"} /\ b.k = "pct" /\ o \in {"+", "-"} ->
              SameKind([q |-> a.q, cur |-> IF a.k = "money" THEN a.cur ELSE ""], PctPhrase(o, b.q, a.q))
         [] a.k = "time" /\ b.k = "dur" /\ o \in {"+", "-"} -> ShiftTime(a, o, b)
         [] a.k = "date" /\ b.k = "dur" /\ o \in {"+", "-"} /\ b.s = 0 /\ b.d \in 0..29 -> ShiftDate(a, o, b.d, "day")
         [] OTHER -> Unspec

\* durations written next to each other add (C10), whether written out or held by names (C03): the items of a `dur_seq`
\* line are names or literal part lists
RECURSIVE DurSeqSum(_, _)
DurSeqSum(env, items) ==
  IF items = <<>> THEN DurZero
  ELSE LET h == Head(items)
           v == IF "name" \in DOMAIN h THEN Lookup(env, h.name) ELSE SumParts(h.parts)
       IN  DurAdd(v, DurSeqSum(env, Tail(items)))
DurSeqOk(env, items) == \A i \in DOMAIN items : "name" \in DOMAIN items[i] => (Bound(env, items[i].name) /\ Lookup(env, items[i].name).k = "dur")

RECURSIVE LineMeaning(_, _)
LineMeaning(ctx, line) ==
  CASE line.form = "arith"   -> [slot |-> ArithMeaning(line.toks), env |-> ctx.env]
    [] line.form = "blank"   -> [slot |-> Empty, env |-> ctx.env]
    [] line.form = "comment" -> [slot |-> Empty, env |-> ctx.env]
    [] line.form = "lit"     -> [slot |-> line.v, env |-> ctx.env]
    [] line.form = "use"     -> LET Mixed(s) == MixedValue(ctx.calc, s) IN [slot |-> UseMeaningWith(ctx.env, line.toks, Mixed), env |-> ctx.env]
    [] line.form = "fail"    -> [slot |-> Fails, env |-> ctx.env]
    [] line.form = "assign"  ->
         LET m == LineMeaning(ctx, line.rhs) IN
         [slot |-> m.slot,
          env  |-> IF IsValue(m.slot) THEN Bind(ctx.env, line.name, m.slot)
                   ELSE IF m.slot.k = "unspec" THEN Bind(ctx.env, line.name, Unspec)
                   ELSE ctx.env]
    [] line.form = "dur_lit"   -> [slot |-> SumParts(line.parts), env |-> ctx.env]
    [] line.form = "dur_arith" -> [slot |-> IF line.op = "+" THEN DurAdd(SumParts(line.a), SumParts(line.b))
                                            ELSE DurSub(SumParts(line.a), SumParts(line.b)), env |-> ctx.env]
    [] line.form = "dur_as"    -> [slot |-> DurAs(SumParts(line.parts), line.target), env |-> ctx.env]
    [] line.form = "time_lit"  -> [slot |-> TimeIn(line.w, ZoneOr(line.z, ctx.calc.tz)), env |-> ctx.env]
    [] line.form = "time_conv" -> [slot |-> ConvertTime(TimeIn(line.w, ZoneOr(line.z, ctx.calc.tz)), line.z2), env |-> ctx.env]
    [] line.form = "time_shift" -> [slot |-> ShiftTime(TimeIn(line.w, ZoneOr(line.z, ctx.calc.tz)), line.op, SumParts(line.parts)),
                                    env |-> ctx.env]
    [] line.form = "time_diff" ->
         LET z1 == ZoneOr(line.z, ctx.calc.tz)  z2 == ZoneOr(line.z2, ctx.calc.tz) IN
         \* two times of one zone differ by the difference of their wall clocks, whatever the zone; across zones
         \* the difference is only specified when neither time leaves the UTC day (one reading only)
         [slot |-> IF z1.off = z2.off \/ (NoWrap(line.w, z1) /\ NoWrap(line.w2, z2)) THEN DiffTime(line.w, z1, line.w2, z2) ELSE Unspec,
          env |-> ctx.env]
    [] line.form = "date_lit"  -> [slot |-> DateOperand(line.a, ctx.today), env |-> ctx.env]
    [] line.form = "date_shift" ->
         LET a == DateOperand(line.a, ctx.today) IN
         [slot |-> IF a.k = "date" THEN ShiftDate(a, line.op, line.n, line.u) ELSE Unspec, env |-> ctx.env]
    [] line.form = "date_diff" ->
         LET a == DateOperand(line.a, ctx.today)  b == DateOperand(line.b, ctx.today) IN
         [slot |-> IF a.k = "date" /\ b.k = "date" THEN DiffDates(a, b) ELSE Unspec, env |-> ctx.env]
    [] line.form = "unix_from" -> [slot |-> FromUnix(line.ts, ZoneOr(line.z, ctx.calc.tz)), env |-> ctx.env]
    [] line.form = "unix_round" -> [slot |-> DateTimeToUnix(FromUnix(line.ts, ZoneOr(line.z, ctx.calc.tz))), env |-> ctx.env]
    [] line.form = "unix_to_date" ->
         LET a == DateOperand(line.a, ctx.today) IN
         [slot |-> IF a.k = "date" THEN DateToUnix(a) ELSE Unspec, env |-> ctx.env]
    \* '<date> at <time>': that wall-clock time on that day in the configured zone - a date-time, shown in that zone.
    \* (The instant of wall clock w on day a in a zone of offset off is a.day * 86400 + w - off * 60.)
    [] line.form \in {"dt_at", "dt_unix", "dt_shift", "dt_conv"} ->
         LET a == DateOperand(line.a, ctx.today)  z == ctx.calc.tz IN
         IF a.k # "date" THEN [slot |-> Unspec, env |-> ctx.env]
         ELSE LET w0 == line.w - z.off * 60
                  t == IF line.form = "dt_shift"
                       THEN LET du == SumParts(line.parts) IN
                            IF line.op = "+" THEN Ts(a.day + du.d, w0 + du.s) ELSE Ts(a.day - du.d, w0 - du.s)
                       ELSE Ts(a.day, w0)
              IN  [slot |-> CASE line.form = "dt_unix" -> t
                              [] line.form = "dt_conv" -> DateTime(t.d, t.s, line.z2.off, line.z2.name)
                              [] OTHER -> DateTime(t.d, t.s, z.off, z.name),
                   env |-> ctx.env]
    [] line.form = "unix_to_time" ->
         [slot |-> IF ctx.calc.tz.off = 0 THEN TimeToUnix(line.w, ctx.today) ELSE Unspec, env |-> ctx.env]
    [] line.form = "radix_lit"   -> [slot |-> IntVal(line.bits, 0), env |-> ctx.env]
    [] line.form = "radix_arith" -> [slot |-> IntVal(AddSmall(line.bits, line.add), 0), env |-> ctx.env]
    [] line.form = "radix_conv"  -> [slot |-> IntVal(RoundQ(line.bits, line.q), line.target), env |-> ctx.env]
    [] line.form = "pct_phrase" -> [slot |-> SameKind(line.x, PctPhrase(line.w, line.p, line.x.q)), env |-> ctx.env]
    [] line.form = "pct_what"   -> [slot |-> IF line.a.cur = line.b.cur THEN Pct(PctWhat(line.a.q, line.b.q)) ELSE Unspec, env |-> ctx.env]
    [] line.form = "pct_total"  -> [slot |-> SameKind(line.a, PctTotal(line.a.q, line.p)), env |-> ctx.env]
    [] line.form = "money_lit"  -> [slot |-> Money(line.x.q, line.x.cur), env |-> ctx.env]
    [] line.form = "money_conv" -> [slot |-> Convert(ctx.calc, line.x.q, line.x.cur, line.target), env |-> ctx.env]
    [] line.form = "money_arith" -> [slot |-> MoneyArith(ctx.calc, line.l, line.op, line.r), env |-> ctx.env]
    [] line.form = "unit_lit"   -> [slot |-> UnitQ(line.x.q, line.x.u), env |-> ctx.env]
    [] line.form = "unit_conv"  -> [slot |-> ConvertUnit(line.x.q, line.x.u, line.target), env |-> ctx.env]
    [] line.form = "unit_arith" -> [slot |-> UnitArith(line.l, line.op, line.r), env |-> ctx.env]
    [] line.form = "rule_line"  -> [slot |-> RuleLineMeaning(ctx.calc, ctx.lang, line), env |-> ctx.env]
    [] line.form = "fam_conv"   -> [slot |-> FamConvMeaning(ctx.calc, line), env |-> ctx.env]
    \* a line the specification gives no meaning to, evaluated through execute: by C04 its result is determined by the
    \* configuration, the text and the date only, i.e. it is what a fresh calculator returns for it
    [] line.form = "opaque"  -> [slot |-> Baseline, env |-> ctx.env]
    \* a phrase whose leading operand is written as a name (C03: every occurrence of a name denotes the bound value): where
    \* the name is bound to the value of the operand, the line means what the phrase written with the operand itself means
    [] line.form = "via"     -> [slot |-> IF Bound(ctx.env, line.name) /\ Lookup(ctx.env, line.name) = LineMeaning(ctx, line.operand).slot
                                          THEN LineMeaning(ctx, line.phrase).slot ELSE Unspec, env |-> ctx.env]
    [] line.form = "dur_seq" -> [slot |-> IF DurSeqOk(ctx.env, line.items) THEN DurSeqSum(ctx.env, line.items) ELSE Unspec, env |-> ctx.env]
    [] line.form = "shape"   -> [slot |-> Unspec, env |-> ctx.env]
    [] OTHER                 -> [slot |-> Unspec, env |-> ctx.env]

(***************************************************************************)
(* The calculator's default configuration and the macro-step of the         *)
(* evaluation loop (one slot per line, in order; an erroneous line does not *)
(* stop it).  Both are state-free so that generator configurations can use  *)
(* them without the system's variables.                                     *)
(***************************************************************************)
DefaultCalc ==
  [dec |-> ",", tho |-> ".",
   num |-> [d |-> 2, remove |-> TRUE, round |-> TRUE],
   pct |-> [d |-> 2, remove |-> TRUE, round |-> TRUE],
   mon |-> [remove |-> FALSE, round |-> TRUE],
   tz  |-> [name |-> "UTC", off |-> 0],
   rates |-> <<>>,        \* rate overrides set through update_currency: sequence of [cur, q]
   rules |-> <<>>,        \* registered custom rules in registration order (C18)
   fams  |-> <<>>,        \* user-defined unit families (C18)
   alias |-> <<>>,        \* configured currency alias table: spelling -> code (handed in by the driver)
   codes |-> {},          \* configured currency codes
   zones |-> <<>>]        \* configured zone table: name -> offset in minutes (handed in by the driver)

\* macro-step of the evaluation loop: one slot per line, in order; an erroneous line does not stop it
RECURSIVE RunLines(_, _, _)
RunLines(ctx, lines, acc) ==
  IF lines = <<>> THEN [slots |-> acc, env |-> ctx.env]
  ELSE LET m == LineMeaning(ctx, Head(lines))
       IN  RunLines([ctx EXCEPT !.env = m.env], Tail(lines), Append(acc, m.slot))

\* agreement of an observed slot with a specified one, including the "expected to fail" marker
\* the printed form of a value, where a property speaks about it (C10: the parts of a duration)
PrintMatches(exp, obs) ==
  /\ (exp.k = "dur" /\ Has(obs, "parts")) => obs.parts = DurParts(exp)
  /\ (exp.k = "time" /\ Has(obs, "pr")) => obs.pr = TimePrinted(exp)
PrintMatchesCtx(ctx, exp, obs) ==
  /\ (exp.k = "date" /\ Has(obs, "pr")) => DatePrintedOk(exp, ctx.today, obs.pr)
  /\ (exp.k = "datetime" /\ Has(obs, "pr")) => DateTimePrintedOk(exp, ctx.today, obs.pr)
WithPrint(v) == IF v.k = "dur" THEN v @@ [parts |-> DurParts(v)]
                ELSE IF v.k = "time" THEN v @@ [pr |-> TimePrinted(v)]
                ELSE IF v.k = "int" /\ v.base # 0 THEN v @@ [pr |-> <<v.base, PrintBase(v.bits, v.base)>>] ELSE v
SlotMatches(exp, obs) ==
  IF exp.k = "fails" THEN obs.k \in SlotKinds
  ELSE IF exp.k = "notkind" THEN obs.k \in SlotKinds /\ obs.k # exp.kind
  ELSE IF exp.k = "int" THEN /\ obs.k = "num" /\ Has(obs, "bits") /\ obs.bits = exp.bits
                             /\ (exp.base # 0 => Has(obs, "pr") /\ obs.pr = <<exp.base, PrintBase(exp.bits, exp.base)>>)
  ELSE IF exp.k = "term" THEN obs.k = exp.kind /\ (exp.kind = "money" => obs.cur = exp.cur)   \* the driver evaluates the term
  ELSE IF exp.k = "uterm" THEN (IF Has(exp, "inv") /\ exp.inv THEN obs.k = "num" ELSE obs.k = "unit" /\ obs.u = exp.u)   \* the driver evaluates the term
  ELSE IF exp.k = "notunits" THEN obs.k \in SlotKinds /\ (obs.k = "unit" => obs.u \notin exp.us)
  ELSE IF exp.k = "baseline" THEN Has(obs, "same_as_base") /\ obs.same_as_base      \* the driver compares with the rule-free run
  ELSE IF exp.k = "famq" THEN obs.k = "unit" /\ QAgrees(obs, exp.q) /\ obs.group = exp.fam /\ obs.index = exp.idx
  ELSE IF exp.k = "ts" THEN obs.k = "num" /\ Has(obs, "ts") /\ obs.ts = <<exp.d, exp.s>> /\ (Has(obs, "pr") => obs.pr = <<exp.d, exp.s>>)
  ELSE Matches(exp, obs) /\ PrintMatches(exp, obs)
SlotMatchesCtx(ctx, exp, obs) == SlotMatches(exp, obs) /\ PrintMatchesCtx(ctx, exp, obs)
=============================================================================
