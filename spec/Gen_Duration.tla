---------------------------- MODULE Gen_Duration ----------------------------
(***************************************************************************)
(* C10 generator.  TLC enumerates abstract duration lines - written         *)
(* durations of 1..7 parts over boundary counts, sums and differences, and  *)
(* 'as' conversions to the five target units - and prints each with the     *)
(* value and the printed parts the specification expects.                   *)
(***************************************************************************)
EXTENDS Meaning, Json
CONSTANT Big    \* TRUE: the larger count sets of the thorough tier

P(n, u) == [n |-> n, u |-> u]
U == DurUnits
Counts1 == IF Big THEN {0, 1, 2, 3, 6, 7, 11, 12, 13, 23, 24, 25, 29, 30, 31, 59, 60, 61, 364, 365, 366, 999, 86399, 86400, 1000000}
           ELSE {0, 1, 2, 29, 30, 59, 60, 364, 365, 1000000}
Counts2 == IF Big THEN {1, 2, 11, 12, 30, 59, 60, 365} ELSE {1, 2, 30, 59, 60, 365}

OneP == {<<P(n, u)>> : n \in Counts1, u \in {U[i] : i \in 1..7}}
TwoP == {<<P(n, u), P(m, v)>> : n \in Counts2, m \in Counts2, u \in {U[i] : i \in 1..7}, v \in {U[i] : i \in 1..7}}

\* every non-empty subset of the seven units, in descending and ascending order, with four count patterns
Pat(k, u) ==
  CASE k = 1 -> 1
    [] k = 2 -> 2
    [] k = 3 -> (CASE u = "year" -> 3 [] u = "month" -> 11 [] u = "week" -> 3 [] u = "day" -> 6 [] u = "hour" -> 23 [] u = "minute" -> 59 [] u = "second" -> 59)
    [] k = 4 -> (CASE u = "year" -> 1 [] u = "month" -> 12 [] u = "week" -> 4 [] u = "day" -> 7 [] u = "hour" -> 24 [] u = "minute" -> 60 [] u = "second" -> 60)
RECURSIVE Pick(_, _, _)
Pick(S, i, k) == IF i > 7 THEN <<>> ELSE (IF i \in S THEN <<P(Pat(k, U[i]), U[i])>> ELSE <<>>) \o Pick(S, i + 1, k)
Rev(s) == [i \in 1..Len(s) |-> s[Len(s) + 1 - i]]
Many == {Pick(S, 1, k) : S \in (SUBSET (1..7)) \ {{}}, k \in 1..4}
ManyR == {Rev(p) : p \in Many}
Lits == OneP \cup TwoP \cup Many \cup ManyR

Ops == {<<P(1, "second")>>, <<P(59, "second")>>, <<P(1, "minute")>>, <<P(90, "minute")>>, <<P(1, "hour")>>, <<P(25, "hour")>>,
        <<P(1, "day")>>, <<P(1, "week")>>, <<P(1, "month")>>, <<P(13, "month")>>, <<P(1, "year")>>,
        <<P(2, "day"), P(3, "hour")>>, <<P(1, "hour"), P(30, "minute"), P(15, "second")>>}
AsSrc == Ops \cup {<<P(119, "second")>>, <<P(6, "day"), P(23, "hour")>>, <<P(8, "day")>>, <<P(3, "week"), P(1, "second")>>,
                   <<P(100, "hour")>>, <<P(1000000, "second")>>, <<P(2, "year"), P(1, "minute")>>}

Lines == {[form |-> "dur_lit", parts |-> p] : p \in Lits}
    \cup {[form |-> "dur_arith", a |-> x, op |-> o, b |-> y] : x \in Ops, y \in Ops, o \in {"+", "-"}}
    \cup {[form |-> "dur_as", parts |-> p, target |-> t] : p \in AsSrc, t \in AsTargets}

VARIABLE line
Init == line \in Lines
Next == UNCHANGED line
Ctx0 == [calc |-> DefaultCalc, lang |-> "en", today |-> 0, env |-> EmptyEnv]
Emit == PrintT(<<"CASE", ToJson([line |-> line, expected |-> WithPrint(LineMeaning(Ctx0, line).slot)])>>)
=============================================================================
