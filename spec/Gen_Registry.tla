---------------------------- MODULE Gen_Registry ----------------------------
(***************************************************************************)
(* C18 generator: every history of MaxDepth calls over                      *)
(*   rules:    add R1 / R2 / R3 / R4, add R1 for an unknown language,        *)
(*             delete n1 / n2 / n3, evaluate three lines                     *)
(*   families: add family f (again), add items 1..3 of f, add item 2 with    *)
(*             other factors, add an item to an unknown family, evaluate     *)
(*             conversions along the chain                                   *)
(* with the return value / result the specification expects for every call. *)
(* R1 and R2 share pattern P1 (registration order decides), R3 accepts only  *)
(* when its text field is "frob", R4 always declines, R1 may be registered   *)
(* twice (deletion removes the first).  RegistryIsReplay: the rule list is   *)
(* what replaying the surviving registrations on a fresh calculator gives.   *)
(***************************************************************************)
EXTENDS SmartCalc, Json
CONSTANTS MaxDepth, Which     \* Part: "rules" or "fams"

Rules == << [name |-> "n1", pats |-> {"P1"}, beh |-> "double"], [name |-> "n2", pats |-> {"P1", "P2"}, beh |-> "usd"],
            [name |-> "n3", pats |-> {"P3"}, beh |-> "guard100"], [name |-> "n4", pats |-> {"P1", "P3"}, beh |-> "decline"] >>
RuleLines == << [form |-> "rule_line", pat |-> "P1", n |-> QInt(7), w |-> ""], [form |-> "rule_line", pat |-> "P2", n |-> Q(5, 2), w |-> ""],
                [form |-> "rule_line", pat |-> "P3", n |-> QInt(7), w |-> "frob"], [form |-> "rule_line", pat |-> "P3", n |-> QInt(7), w |-> "snarf"] >>
Items == << [idx |-> 1, up |-> Q(1, 4), down |-> One], [idx |-> 2, up |-> Q(1, 5), down |-> QInt(4)], [idx |-> 3, up |-> One, down |-> QInt(5)] >>
Item2b == [idx |-> 2, up |-> Q(1, 2), down |-> QInt(3)]
FamLines == << [form |-> "fam_conv", fam |-> "zorps", q |-> QInt(40), a |-> 1, b |-> 2], [form |-> "fam_conv", fam |-> "zorps", q |-> QInt(3), a |-> 3, b |-> 1],
               [form |-> "fam_conv", fam |-> "zorps", q |-> QInt(40), a |-> 1, b |-> 3], [form |-> "fam_conv", fam |-> "zorps", q |-> QInt(2), a |-> 2, b |-> 1] >>

VARIABLE hist
gvars == <<vars, hist>>
GInit == calc = DefaultCalc /\ sess = <<>> /\ run = NoRun /\ today = 0 /\ last = [call |-> "none"] /\ hist = <<>>
Ctx1 == [calc |-> calc, lang |-> "en", today |-> 0, env |-> EmptyEnv]
Eval(l) == /\ hist' = Append(hist, [call |-> "execute", line |-> l, expected |-> LineMeaning(Ctx1, l).slot])
           /\ last' = [call |-> "execute", status |-> TRUE, slots |-> <<>>, lines |-> <<>>] /\ UNCHANGED <<calc, sess, run, today>>
RuleNext ==
  \/ \E i \in DOMAIN Rules : AddRule("en", Rules[i].name, Rules[i].pats, Rules[i].beh)
                             /\ hist' = Append(hist, [call |-> "add_rule", lang |-> "en", rule |-> i, ret |-> last'.ret])
  \/ AddRule("xx", Rules[1].name, Rules[1].pats, Rules[1].beh) /\ hist' = Append(hist, [call |-> "add_rule", lang |-> "xx", rule |-> 1, ret |-> last'.ret])
  \/ \E n \in {"n1", "n2", "n3"} : DeleteRule("en", n) /\ hist' = Append(hist, [call |-> "delete_rule", lang |-> "en", name |-> n, ret |-> last'.ret])
  \/ \E i \in DOMAIN RuleLines : Eval(RuleLines[i])
FamNext ==
  \/ AddFamily("zorps") /\ hist' = Append(hist, [call |-> "add_type", name |-> "zorps", ret |-> last'.ret])
  \/ \E i \in DOMAIN Items : AddItem("zorps", Items[i]) /\ hist' = Append(hist, [call |-> "add_type_item", fam |-> "zorps", item |-> Items[i], ret |-> last'.ret])
  \/ AddItem("zorps", Item2b) /\ hist' = Append(hist, [call |-> "add_type_item", fam |-> "zorps", item |-> Item2b, ret |-> last'.ret])
  \/ AddItem("blips", Items[1]) /\ hist' = Append(hist, [call |-> "add_type_item", fam |-> "blips", item |-> Items[1], ret |-> last'.ret])
  \/ \E i \in DOMAIN FamLines : Eval(FamLines[i])
GNext == Len(hist) < MaxDepth /\ (IF Which = "rules" THEN RuleNext ELSE FamNext)
Emit == Len(hist) = MaxDepth => PrintT(<<"CASE", ToJson([part |-> Which, hist |-> hist])>>)

\* the rule list is the replay of the surviving registrations, in order
RECURSIVE Replay(_, _)
Replay(h, rs) ==
  IF h = <<>> THEN rs
  ELSE LET e == Head(h) IN
       Replay(Tail(h),
         IF e.call = "add_rule" /\ e.lang \in Languages
           THEN Append(rs, [lang |-> e.lang, name |-> Rules[e.rule].name, pats |-> Rules[e.rule].pats, beh |-> Rules[e.rule].beh])
         ELSE IF e.call = "delete_rule" /\ \E i \in DOMAIN rs : rs[i].name = e.name
           THEN RemoveAt(rs, CHOOSE i \in DOMAIN rs : rs[i].name = e.name /\ \A j \in DOMAIN rs : rs[j].name = e.name => i <= j)
         ELSE rs)
RegistryIsReplay == calc.rules = Replay(hist, <<>>)
RetsOk == \A i \in DOMAIN hist :
   /\ (hist[i].call = "add_rule" => hist[i].ret = (hist[i].lang = "en"))
   /\ (hist[i].call = "add_type_item" /\ hist[i].fam = "blips" => ~hist[i].ret)
DupRejected == \A i, j \in DOMAIN hist : (i < j /\ hist[i].call = "add_type" /\ hist[j].call = "add_type") => ~hist[j].ret
=============================================================================
