------------------------------ MODULE MC_Units ------------------------------
(***************************************************************************)
(* Design-level check of the C12 oracle over all triples of the unit table: *)
(* conversion is linear, invertible and transitive wherever it is exact,    *)
(* the symbolic parts cancel consistently, kinds never mix, and the table   *)
(* states the definitions quoted in the property.                           *)
(***************************************************************************)
EXTENDS Units
VARIABLES a, b
Init == a \in UnitNames /\ b \in UnitNames
Next == UNCHANGED <<a, b>>
SameKind2 == UnitOf(a).kind = UnitOf(b).kind
Amounts == {One, Q(5, 2), QInt(1000)}
KindsNeverMix == ~SameKind2 => ConvertUnit(One, a, b).k = "notunits" /\ b \in ConvertUnit(One, a, b).us /\ a \notin ConvertUnit(One, a, b).us
Inverse == SameKind2 => \A q \in Amounts :
   LET c == ConvertUnitQ(q, a, b) IN
   IF c.exact THEN LET d == ConvertUnitQ(c.q, b, a) IN d.exact /\ d.q = q
   ELSE LET d == ConvertUnitQ(c.mul, b, a) IN (~d.exact) /\ d.mul = q /\ d.oz = -c.oz /\ d.e2 = -c.e2
Transitive == SameKind2 => \A cn \in UnitsOfKind(UnitOf(a).kind) :
   LET ab == ConvertUnitQ(One, a, b)  ac == ConvertUnitQ(One, a, cn) IN
   (ab.exact /\ ac.exact) => LET bc == ConvertUnitQ(ab.q, b, cn) IN bc.exact => bc.q = ac.q
Linear == SameKind2 => LET c1 == ConvertUnitQ(One, a, b) c2 == ConvertUnitQ(Q(5, 2), a, b) IN
   IF c1.exact THEN c2.exact /\ c2.q = QMul(Q(5, 2), c1.q) ELSE (~c2.exact) /\ c2.mul = QMul(Q(5, 2), c1.mul)
Definitions ==
   /\ ConvertUnit(One, "in", "mm") = UnitQ(Q(254, 10), "mm") /\ ConvertUnit(One, "ft", "in") = UnitQ(QInt(12), "in")
   /\ ConvertUnit(One, "yard", "ft") = UnitQ(QInt(3), "ft") /\ ConvertUnit(One, "mile", "yard") = UnitQ(QInt(1760), "yard")
   /\ ConvertUnit(One, "lb", "oz") = UnitQ(QInt(16), "oz") /\ ConvertUnit(One, "st", "lb") = UnitQ(QInt(14), "lb")
   /\ ConvertUnit(One, "byte", "bit") = UnitQ(QInt(8), "bit") /\ ConvertUnit(One, "kb", "byte") = UnitQ(QInt(1024), "byte")
   /\ ConvertUnit(One, "gb", "kb") = UnitQ(QInt(1048576), "kb") /\ ConvertUnit(One, "km", "m") = UnitQ(QInt(1000), "m")
   /\ ConvertUnit(One, "kg", "g") = UnitQ(QInt(1000), "g") /\ ConvertUnit(One, "tonne", "kg") = UnitQ(QInt(1000), "kg")
   /\ ConvertUnit(One, "kg", "hg") = UnitQ(QInt(10), "hg") /\ ConvertUnit(One, "mile", "km") = UnitQ(Q(1609344, 1000000), "km")
   /\ ConvertUnit(One, "oz", "g") = UnitTerm("g", Q(1, 1000), 1, 0) /\ ConvertUnit(One, "yb", "bit").k = "uterm"
   /\ UnitArith([q |-> One, u |-> "km"], "+", [q |-> QInt(500), u |-> "m"]) = UnitQ(Q(3, 2), "km")
   /\ UnitArith([q |-> One, u |-> "km"], "/", [q |-> QInt(500), u |-> "m"]) = Num(QInt(2))
   /\ UnitArith([q |-> QInt(3), u |-> "ft"], "*", [q |-> QInt(2), u |-> ""]) = UnitQ(QInt(6), "ft")
=============================================================================
