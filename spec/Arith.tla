-------------------------------- MODULE Arith --------------------------------
(***************************************************************************)
(* C02.  The intended meaning of an arithmetic line.                        *)
(*                                                                         *)
(* A line is a sequence of tokens                                          *)
(*    [k |-> "num", m |-> <<n, d>>, sfx |-> s]   literal m (>= 0) with      *)
(*                                               magnitude suffix s         *)
(*    [k |-> "op", c |-> "+" | "-" | "*" | "/"]                             *)
(*    [k |-> "lp"]   [k |-> "rp"]                                           *)
(* How the tokens are spelled (spacing, a sign glued to its literal,        *)
(* separators) is a rendering attribute and does not occur here.            *)
(*                                                                         *)
(* Grammar (the "usual rules" of the statement):                            *)
(*    Expr    ::= Term ( ("+" | "-") Term  |  Term )*     adjacency adds     *)
(*    Term    ::= Unary ( ("*" | "/") Unary )*            left associative   *)
(*    Unary   ::= ("+" | "-") Unary | Primary             sign prefix        *)
(*    Primary ::= num | "(" Expr ")"                                        *)
(* x / 0 = 0.                                                               *)
(***************************************************************************)
EXTENDS Values

SuffixExp(s) ==
  CASE s = ""  -> 0  [] s = "k" -> 3  [] s = "M" -> 6  [] s = "G" -> 9 [] s = "T" -> 12
    [] s = "P" -> 15 [] s = "Z" -> 18 [] s = "Y" -> 21
\* The statement lists k, M, G, T, P, Z, Y and says "the corresponding power of 1000":
\* the i-th letter of that list scales by 1000^i (so Z = 10^18, Y = 10^21).
\* a literal token either spells a mantissa with a suffix or (after variable substitution) carries a value
LitValue(t) == IF "q" \in DOMAIN t THEN t.q ELSE Norm(<<t.m[1], t.m[2], SuffixExp(t.sfx)>>)

Fail == [ok |-> FALSE, v |-> Zero, i |-> 0]
IsOp(toks, i, S) == i <= Len(toks) /\ toks[i].k = "op" /\ toks[i].c \in S
StartsPrimary(toks, i) == i <= Len(toks) /\ (toks[i].k = "num" \/ toks[i].k = "lp")

RECURSIVE PExpr(_, _), PExprTail(_, _, _), PTerm(_, _), PTermTail(_, _, _), PUnary(_, _), PPrimary(_, _)
PExpr(toks, i) == LET t == PTerm(toks, i) IN IF t.ok THEN PExprTail(toks, t.i, t.v) ELSE Fail
PExprTail(toks, i, acc) ==
  IF IsOp(toks, i, {"+", "-"}) THEN
       LET t == PTerm(toks, i + 1) IN
       IF t.ok THEN PExprTail(toks, t.i, Apply(toks[i].c, acc, t.v)) ELSE Fail
  ELSE IF StartsPrimary(toks, i) THEN
       LET t == PTerm(toks, i) IN
       IF t.ok THEN PExprTail(toks, t.i, QAdd(acc, t.v)) ELSE Fail
  ELSE [ok |-> TRUE, v |-> acc, i |-> i]
PTerm(toks, i) == LET u == PUnary(toks, i) IN IF u.ok THEN PTermTail(toks, u.i, u.v) ELSE Fail
PTermTail(toks, i, acc) ==
  IF IsOp(toks, i, {"*", "/"}) THEN
       LET u == PUnary(toks, i + 1) IN
       IF u.ok THEN PTermTail(toks, u.i, Apply(toks[i].c, acc, u.v)) ELSE Fail
  ELSE [ok |-> TRUE, v |-> acc, i |-> i]
PUnary(toks, i) ==
  IF IsOp(toks, i, {"-"}) THEN
       LET u == PUnary(toks, i + 1) IN IF u.ok THEN [u EXCEPT !.v = QNeg(u.v)] ELSE Fail
  ELSE IF IsOp(toks, i, {"+"}) THEN PUnary(toks, i + 1)
  ELSE PPrimary(toks, i)
PPrimary(toks, i) ==
  IF i > Len(toks) THEN Fail
  ELSE IF toks[i].k = "num" THEN [ok |-> TRUE, v |-> LitValue(toks[i]), i |-> i + 1]
  ELSE IF toks[i].k = "lp" THEN
       LET e == PExpr(toks, i + 1) IN
       IF e.ok /\ e.i <= Len(toks) /\ toks[e.i].k = "rp" THEN [e EXCEPT !.i = e.i + 1] ELSE Fail
  ELSE Fail

\* Domain predicate (shared with C09): a quotient chain  a / b / c  whose operands read as a day, a month and a year
\* (positive whole numbers, day <= 31, month <= 12) is by design a date, not arithmetic.  Whether the day exists in that
\* month is not asked here, so that the arithmetic reading is only demanded where no date reading can be meant; a chain
\* whose third operand is 0, negative or fractional has no date reading: it is arithmetic ( a / b / 0 = 0 ).
IsNumTok(toks, i) == i <= Len(toks) /\ toks[i].k = "num"
Trunc(m) == m[1] \div m[2]
Whole(m) == m[1] % m[2] = 0
\* a `+` sign directly in front of an operand belongs to the literal for the date reader too: 1 / 7 / +12 and 10 / +10 / 12
\* read as dates; the chain is looked for with these signs taken out
IsPlusPrefix(toks, i) == IsOp(toks, i, {"+"}) /\ (i = 1 \/ toks[i - 1].k \in {"op", "lp"}) /\ IsNumTok(toks, i + 1)
RECURSIVE StripPlus(_, _)
StripPlus(toks, i) == IF i > Len(toks) THEN <<>> ELSE IF IsPlusPrefix(toks, i) THEN StripPlus(toks, i + 1) ELSE <<toks[i]>> \o StripPlus(toks, i + 1)
DateLike0(toks) ==
  \E i \in 1..(Len(toks) - 4) :
     /\ IsNumTok(toks, i) /\ IsNumTok(toks, i + 2) /\ IsNumTok(toks, i + 4)
     /\ IsOp(toks, i + 1, {"/"}) /\ IsOp(toks, i + 3, {"/"})
     /\ "m" \in DOMAIN toks[i] /\ "m" \in DOMAIN toks[i + 2] /\ "m" \in DOMAIN toks[i + 4]
     /\ toks[i].sfx = "" /\ toks[i + 2].sfx = ""
     /\ Whole(toks[i].m) /\ Whole(toks[i + 2].m) /\ Whole(toks[i + 4].m)
     /\ Trunc(toks[i].m) \in 1..31 /\ Trunc(toks[i + 2].m) \in 1..12 /\ Trunc(toks[i + 4].m) >= 1
DateLike(toks) == DateLike0(StripPlus(toks, 1))

\* value of a whole line: ok = FALSE when the tokens are not a sentence of the grammar
ArithLine(toks) ==
  LET e == PExpr(toks, 1)
  IN  IF e.ok /\ e.i = Len(toks) + 1 THEN [ok |-> TRUE, v |-> e.v] ELSE [ok |-> FALSE, v |-> Zero]

(***************************************************************************)
(* Expression trees, used by the model-checking and generator               *)
(* configurations: the value of a tree is defined directly on the tree      *)
(* (TreeValue), independently of the token grammar above, and Unparse       *)
(* writes a tree as tokens with the minimal parentheses.                    *)
(***************************************************************************)
Lit(n, d)     == [t |-> "lit", m |-> <<n, d>>, sfx |-> ""]
LitS(n, d, s) == [t |-> "lit", m |-> <<n, d>>, sfx |-> s]
Bin(o, a, b)  == [t |-> "bin", op |-> o, l |-> a, r |-> b]
Par(a)        == [t |-> "par", e |-> a]
Neg(a)        == [t |-> "neg", e |-> a]
Pos(a)        == [t |-> "pos", e |-> a]      \* the other sign prefix: `+` leaves its operand as it is

RECURSIVE TreeValue(_)
TreeValue(e) ==
  CASE e.t = "lit" -> Norm(<<e.m[1], e.m[2], SuffixExp(e.sfx)>>)
    [] e.t = "par" -> TreeValue(e.e)
    [] e.t = "neg" -> QNeg(TreeValue(e.e))
    [] e.t = "pos" -> TreeValue(e.e)
    [] e.t = "bin" -> Apply(e.op, TreeValue(e.l), TreeValue(e.r))

Prec(o) == IF o \in {"*", "/"} THEN 2 ELSE 1
TLp == [k |-> "lp"]
TRp == [k |-> "rp"]
TOp(c) == [k |-> "op", c |-> c]

\* p: the precedence the context requires; right: operand position on the right of an operator
RECURSIVE Unparse(_, _, _)
Unparse(e, p, right) ==
  CASE e.t = "lit" -> <<[k |-> "num", m |-> e.m, sfx |-> e.sfx]>>
    [] e.t = "par" -> <<TLp>> \o Unparse(e.e, 0, FALSE) \o <<TRp>>
    [] e.t = "neg" -> \* a sign prefix binds tighter than any operator: its operand needs parentheses unless primary
                      <<TOp("-")>> \o Unparse(e.e, 3, FALSE)
    [] e.t = "pos" -> <<TOp("+")>> \o Unparse(e.e, 3, FALSE)
    [] e.t = "bin" ->
         LET need  == Prec(e.op) < p \/ (right /\ Prec(e.op) = p)
             inner == Unparse(e.l, Prec(e.op), FALSE) \o <<TOp(e.op)>> \o Unparse(e.r, Prec(e.op), TRUE)
         IN  IF need THEN <<TLp>> \o inner \o <<TRp>> ELSE inner

\* every operator application parenthesised
RECURSIVE UnparseFull(_)
UnparseFull(e) ==
  CASE e.t = "lit" -> <<[k |-> "num", m |-> e.m, sfx |-> e.sfx]>>
    [] e.t = "par" -> <<TLp>> \o UnparseFull(e.e) \o <<TRp>>
    [] e.t = "neg" -> <<TOp("-"), TLp>> \o UnparseFull(e.e) \o <<TRp>>
    [] e.t = "pos" -> <<TOp("+"), TLp>> \o UnparseFull(e.e) \o <<TRp>>
    [] e.t = "bin" -> <<TLp>> \o UnparseFull(e.l) \o <<TOp(e.op)>> \o UnparseFull(e.r) \o <<TRp>>
=============================================================================
