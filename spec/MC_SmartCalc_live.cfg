CONSTANT NTexts = 3
CONSTANT WithEnv = FALSE
SPECIFICATION MCSpec
PROPERTY Terminates
CHECK_DEADLOCK FALSE
