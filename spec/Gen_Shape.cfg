CONSTANT MaxLen = 2
CONSTANT NClass = 25
INIT Init
NEXT Next
INVARIANT Emit
CHECK_DEADLOCK FALSE
