------------------------------ MODULE MC_Kinds ------------------------------
(* Design-level facts about the kind algebra; no state, the facts are evaluated once. *)
EXTENDS Kinds, FiniteSets
VARIABLE x
Init == x = 0
Next == UNCHANGED x
Facts == /\ FixedCellsAreValues /\ RatioIsNumber /\ ScalingKeepsKind
         /\ Cardinality(ValueCells) = 50
         \* the left operand decides: percentages, durations, times and dates accept nothing but the listed kinds
         /\ \A rk \in Kinds8 \ {"pct"}, o \in Ops4 : ResultKind("pct", o, rk, TRUE) = "error"
         /\ \A lk \in {"dur", "time", "date", "datetime"}, rk \in Kinds8, o \in {"*", "/"} : ResultKind(lk, o, rk, TRUE) = "error"
         \* HighCount is the count of the leading unit
         /\ HighCount(UnitDur(2, "week")) = 14 /\ HighCount(UnitDur(3, "year")) = 3 /\ HighCount(UnitDur(90, "minute")) = 1
=============================================================================
