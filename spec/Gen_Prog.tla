------------------------------ MODULE Gen_Prog ------------------------------
(***************************************************************************)
(* C03 generator: every straight-line program of 1..MaxLen lines over the   *)
(* line alphabet below (3 names, one a prefix of another; assignments of    *)
(* literals of every kind, copies, self-reference, uses, negation, sums,    *)
(* failing lines, failing assignments), with the slots the specification    *)
(* expects.  The value assigned by a literal assignment depends on the      *)
(* line number, so that a stale or lost binding is visible.                 *)
(***************************************************************************)
EXTENDS Meaning, Json, TLC
CONSTANTS MaxLen, Alphabet

Foo == <<"foo">>
FooBar == <<"foo", "bar">>
Qux == <<"qux">>
W(ws) == [k |-> "words", ws |-> ws]
NumTok(x) == [k |-> "num", m |-> <<x, 1>>, sfx |-> ""]
Assign(n, rhs) == [form |-> "assign", name |-> n, rhs |-> rhs]
LitL(v) == [form |-> "lit", v |-> v]
Use(toks) == [form |-> "use", toks |-> toks]
FailL == [form |-> "fail", name |-> <<>>]
FailAssign(n) == [form |-> "assign", name |-> n, rhs |-> [form |-> "fail", name |-> n]]

\* literal of a kind that cycles with the line number, value depends on the line number too
KindLit(pos, salt) ==
  LET x == 10 * pos + salt IN
  CASE pos % 7 = 1 -> Num(QInt(x))
    [] pos % 7 = 2 -> Money(QInt(x), "usd")
    [] pos % 7 = 3 -> Pct(QInt(x))
    [] pos % 7 = 4 -> Dur(0, 60 * x)
    [] pos % 7 = 5 -> UnitQ(QInt(x), "km")
    [] pos % 7 = 6 -> Date(18262 + x)          \* 2020-01-01 + x days
    [] pos % 7 = 0 -> Time(3600 + 60 * x, 0, "UTC")

\* the line alphabet; index -> line (pos = line number in the program)
LineOf(a, pos) ==
  CASE a = 1  -> Assign(Foo, LitL(Num(QInt(10 * pos + 1))))
    [] a = 2  -> Assign(FooBar, LitL(Num(QInt(10 * pos + 2))))
    [] a = 3  -> Assign(Qux, Use(<<W(Foo)>>))                               \* copy
    [] a = 4  -> Assign(Foo, Use(<<W(Foo), TOp("+"), NumTok(1)>>))          \* self reference
    [] a = 5  -> Use(<<W(Foo)>>)
    [] a = 6  -> Use(<<W(FooBar)>>)                                         \* longest match
    [] a = 7  -> Use(<<W(Qux)>>)
    [] a = 8  -> Use(<<TOp("-"), W(Foo)>>)
    [] a = 9  -> Use(<<W(Foo), TOp("+"), W(Qux)>>)
    [] a = 10 -> FailL
    [] a = 11 -> FailAssign(Foo)
    [] a = 12 -> Assign(Qux, LitL(KindLit(pos, 3)))                         \* every kind of value
    [] a = 13 -> Assign(FooBar, LitL(KindLit(pos + 3, 4)))
    [] a = 14 -> Assign(FooBar, Use(<<W(Qux)>>))
    [] a = 15 -> Use(<<W(FooBar), TOp("*"), NumTok(2)>>)
    \* computing with bound values of other kinds
    [] a = 16 -> Assign(Qux, LitL(Money(QInt(10 * pos + 5), "usd")))
    [] a = 17 -> Assign(Foo, LitL(UnitQ(QInt(10 * pos), "km")))
    [] a = 18 -> Assign(FooBar, LitL(Dur(0, 600 * pos)))
    [] a = 19 -> Assign(Foo, LitL(Pct(QInt(pos + 5))))
    [] a = 20 -> Use(<<W(Qux), TOp("+"), W(Qux)>>)
    [] a = 21 -> Use(<<W(Qux), TOp("*"), NumTok(3)>>)
    [] a = 22 -> Use(<<W(Foo), TOp("/"), NumTok(4)>>)
    [] a = 23 -> Use(<<W(FooBar), TOp("-"), W(FooBar)>>)
    [] a = 24 -> Use(<<W(Qux), TOp("+"), W(Foo)>>)
    [] a = 25 -> Assign(FooBar, Use(<<W(Qux), TOp("-"), W(Foo)>>))

VARIABLE prog
Init == prog = <<>>
Next == Len(prog) < MaxLen /\ \E a \in Alphabet : prog' = Append(prog, a)

Lines == [i \in DOMAIN prog |-> LineOf(prog[i], i)]
Expected == RunLines([calc |-> DefaultCalc, lang |-> "en", today |-> 0, env |-> EmptyEnv], Lines, <<>>).slots
Emit == prog = <<>> \/ PrintT(<<"CASE", ToJson([prog |-> prog, lines |-> Lines, expected |-> Expected])>>)
=============================================================================
