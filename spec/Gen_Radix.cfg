CONSTANT Small = 40
CONSTANT KStep = 6
INIT Init
NEXT Next
INVARIANT Emit
CHECK_DEADLOCK FALSE
