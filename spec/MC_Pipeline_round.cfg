CONSTANT MaxLen = 3
CONSTANT Schedule = "round"
SPECIFICATION Spec
INVARIANT PatternsShrink
INVARIANT Fixpoint
INVARIANT StepIsFunction
INVARIANT ZonedDifference
PROPERTY Shrinks
CHECK_DEADLOCK FALSE
