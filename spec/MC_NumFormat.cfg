INIT Init
NEXT Next
INVARIANT NonEmpty
INVARIANT WellFormed
INVARIANT GroupingOk
INVARIANT Anchors
CHECK_DEADLOCK FALSE
