------------------------------ MODULE Duration ------------------------------
(***************************************************************************)
(* C10.  Durations.  A duration is a signed amount of time, represented as *)
(* the pair (d, s): d days and s seconds with 0 <= s < 86400 (floor         *)
(* convention for negative amounts), so that 10^6 years fit TLC's 32-bit    *)
(* integers.                                                                *)
(*                                                                         *)
(* Unit lengths of the statement: minute 60 s, hour 3600 s, day 86400 s,    *)
(* week 7 days, month 30 days, year 365 days, twelve months making one      *)
(* year (so N months = N div 12 years + N mod 12 months).                   *)
(***************************************************************************)
EXTENDS Values

DurUnits == <<"year", "month", "week", "day", "hour", "minute", "second">>

\* N units, N a natural number
UnitDur(n, u) ==
  CASE u = "second" -> Dur(n \div 86400, n % 86400)
    [] u = "minute" -> Dur(n \div 1440, (n % 1440) * 60)
    [] u = "hour"   -> Dur(n \div 24, (n % 24) * 3600)
    [] u = "day"    -> Dur(n, 0)
    [] u = "week"   -> Dur(7 * n, 0)
    [] u = "month"  -> Dur((n \div 12) * 365 + (n % 12) * 30, 0)
    [] u = "year"   -> Dur(365 * n, 0)

DurZero == Dur(0, 0)
DurAdd(a, b) == DurOfSecs(a.d + b.d, a.s + b.s)
DurNeg(a) == IF a.s = 0 THEN Dur(-a.d, 0) ELSE Dur(-a.d - 1, 86400 - a.s)
DurSub(a, b) == DurAdd(a, DurNeg(b))
DurIsNeg(a) == a.d < 0
DurAbs(a) == IF DurIsNeg(a) THEN DurNeg(a) ELSE a
DurLess(a, b) == a.d < b.d \/ (a.d = b.d /\ a.s < b.s)

\* a written duration: parts [n |-> count, u |-> unit] next to each other (or joined by +) add
RECURSIVE SumParts(_)
SumParts(ps) == IF ps = <<>> THEN DurZero ELSE DurAdd(UnitDur(Head(ps).n, Head(ps).u), SumParts(Tail(ps)))

\* 'D as unit': |D| rounded down to a whole number of the unit
AsTargets == {"second", "minute", "hour", "day", "week"}
DurAs(a, t) ==
  LET m == DurAbs(a) IN
  CASE t = "second" -> m
    [] t = "minute" -> Dur(m.d, m.s - (m.s % 60))
    [] t = "hour"   -> Dur(m.d, m.s - (m.s % 3600))
    [] t = "day"    -> Dur(m.d, 0)
    [] t = "week"   -> Dur(m.d - (m.d % 7), 0)

(***************************************************************************)
(* Printing: the magnitude decomposed greedily into years, months, weeks,   *)
(* days, hours, minutes, seconds; parts with count 0 are not printed; the   *)
(* word is the singular one exactly for count 1.  A part is                 *)
(* <<count, unit, "one" | "many">>.                                         *)
(***************************************************************************)
Counts(a) ==
  LET m  == DurAbs(a)
      r1 == m.d % 365
      r2 == r1 % 30
  IN  <<m.d \div 365, r1 \div 30, r2 \div 7, r2 % 7, m.s \div 3600, (m.s % 3600) \div 60, m.s % 60>>

Part(n, u) == <<n, u, IF n = 1 THEN "one" ELSE "many">>
RECURSIVE PartsFrom(_, _)
PartsFrom(c, i) ==
  IF i > 7 THEN <<>>
  ELSE (IF c[i] > 0 THEN <<Part(c[i], DurUnits[i])>> ELSE <<>>) \o PartsFrom(c, i + 1)
DurParts(a) == PartsFrom(Counts(a), 1)

\* the printed parts, read back with the unit lengths, give the magnitude again
RECURSIVE SumPrinted(_)
SumPrinted(ps) == IF ps = <<>> THEN DurZero ELSE DurAdd(UnitDur(Head(ps)[1], Head(ps)[2]), SumPrinted(Tail(ps)))
=============================================================================
