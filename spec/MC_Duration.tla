---------------------------- MODULE MC_Duration ----------------------------
(***************************************************************************)
(* Design-level check of the C10 oracle.  For every magnitude of a set     *)
(* that hits every carry (all day counts 0..MaxDays, seconds of day around  *)
(* every unit boundary) the greedy parts sum to the magnitude when read     *)
(* with the plain unit lengths, every part stays below the size of the next *)
(* larger unit, no zero part is printed and singular words are used exactly *)
(* for count 1; 'as' floors; negation and subtraction are consistent.       *)
(***************************************************************************)
EXTENDS Duration, FiniteSets
CONSTANT MaxDays

SecSet == {0, 1, 2, 59, 60, 61, 119, 120, 3599, 3600, 3601, 7199, 7200, 43200, 86398, 86399}

VARIABLE a
Init == a \in {Dur(d, s) : d \in 0..MaxDays, s \in SecSet}
Next == UNCHANGED a

Plain(u) == CASE u = "year" -> 365 [] u = "month" -> 30 [] u = "week" -> 7 [] u = "day" -> 1 [] OTHER -> 0
PlainSecs(u) == CASE u = "hour" -> 3600 [] u = "minute" -> 60 [] u = "second" -> 1 [] OTHER -> 0
RECURSIVE PlainSum(_)
PlainSum(ps) == IF ps = <<>> THEN DurZero
                ELSE DurAdd(Dur(Head(ps)[1] * Plain(Head(ps)[2]), Head(ps)[1] * PlainSecs(Head(ps)[2])), PlainSum(Tail(ps)))

PartsSum   == PlainSum(DurParts(a)) = a
Limit(u) == CASE u = "year" -> 100000 [] u = "month" -> 13 [] u = "week" -> 5 [] u = "day" -> 7
              [] u = "hour" -> 24 [] u = "minute" -> 60 [] u = "second" -> 60
PartsSmall == \A i \in DOMAIN DurParts(a) : LET p == DurParts(a)[i] IN
                 /\ p[1] > 0 /\ p[1] < Limit(p[2])
                 /\ (p[3] = "one") = (p[1] = 1)
Ordered    == \A i, j \in DOMAIN DurParts(a) : i < j =>
                 (CHOOSE k \in 1..7 : DurUnits[k] = DurParts(a)[i][2]) < (CHOOSE k \in 1..7 : DurUnits[k] = DurParts(a)[j][2])
NegInvolutive == DurNeg(DurNeg(a)) = a /\ DurAbs(DurNeg(a)) = a /\ DurParts(DurNeg(a)) = DurParts(a)
SubSelf    == DurSub(a, a) = DurZero /\ DurAdd(a, DurZero) = a
AsFloors   == \A t \in AsTargets :
                 LET r == DurAs(a, t) IN
                 /\ ~DurLess(a, r)                                      \* never rounds up
                 /\ DurLess(a, DurAdd(r, UnitDur(1, t)))                \* by less than one unit
                 /\ DurAs(r, t) = r                                     \* a whole number of the unit
                 /\ DurAs(DurNeg(a), t) = r
\* C15 on the specification: reading the printed parts back with the unit lengths of C10 gives the magnitude again -
\* except where the greedy printer emits "12 months" (a remainder of 360..364 days within a year): twelve months are
\* read back as one year = 365 days.  The two properties cannot both hold there; the checks list it as a known finding.
ReadBack == (SumPrinted(DurParts(a)) = a) <=> ((a.d % 365) \notin 360..364)
UnitsAgree == /\ UnitDur(60, "second") = UnitDur(1, "minute") /\ UnitDur(60, "minute") = UnitDur(1, "hour")
              /\ UnitDur(24, "hour") = UnitDur(1, "day") /\ UnitDur(7, "day") = UnitDur(1, "week")
              /\ UnitDur(12, "month") = UnitDur(1, "year") /\ UnitDur(1, "month") = UnitDur(30, "day")
              /\ UnitDur(1, "year") = UnitDur(365, "day") /\ UnitDur(25, "month") = DurAdd(UnitDur(2, "year"), UnitDur(30, "day"))
              /\ UnitDur(1000000, "second") = Dur(11, 49600) /\ UnitDur(1000000, "hour") = Dur(41666, 57600)
=============================================================================
