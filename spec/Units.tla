-------------------------------- MODULE Units --------------------------------
(***************************************************************************)
(* C12.  Unit quantities.  The table states the *standard definitions* of   *)
(* the 33 units (the statement of the property), not what config.json says: *)
(* config.json is under test here.  The size of a unit, in the base unit of *)
(* its kind, is   f * OZ^oz * 2^e2   with f an exact rational, OZ the mass   *)
(* of the ounce in milligrams (28349.5231, kept symbolic: products with it  *)
(* leave TLC's 32-bit range) and 2^e2 for the 1024-based memory multiples.  *)
(*   length: base 1/10 mm    weight: base mg    memory: base bit             *)
(***************************************************************************)
EXTENDS Money

UnitRec(n, k, f, oz, e2) == [name |-> n, kind |-> k, f |-> f, oz |-> oz, e2 |-> e2]

UnitNames == {"mm", "cm", "dm", "m", "dam", "hm", "km", "in", "ft", "yard", "furlong", "mile", "mg", "cg", "dg", "g", "dag", "hg", "kg", "tonne", "oz", "lb", "st", "bit", "byte", "kb", "mb", "gb", "tb", "pb", "eb", "zb", "yb"}
UnitOf(n) ==
  CASE n = "mm" -> UnitRec("mm", "length", QInt(10), 0, 0)
    [] n = "cm" -> UnitRec("cm", "length", QInt(100), 0, 0)
    [] n = "dm" -> UnitRec("dm", "length", QInt(1000), 0, 0)
    [] n = "m" -> UnitRec("m", "length", QInt(10000), 0, 0)
    [] n = "dam" -> UnitRec("dam", "length", QInt(100000), 0, 0)
    [] n = "hm" -> UnitRec("hm", "length", QInt(1000000), 0, 0)
    [] n = "km" -> UnitRec("km", "length", QInt(10000000), 0, 0)
    [] n = "in" -> UnitRec("in", "length", QInt(254), 0, 0)
    [] n = "ft" -> UnitRec("ft", "length", QInt(12 * 254), 0, 0)
    [] n = "yard" -> UnitRec("yard", "length", QInt(36 * 254), 0, 0)
    [] n = "furlong" -> UnitRec("furlong", "length", QInt(220 * 36 * 254), 0, 0)
    [] n = "mile" -> UnitRec("mile", "length", QInt(1760 * 36 * 254), 0, 0)
    [] n = "mg" -> UnitRec("mg", "weight", QInt(1), 0, 0)
    [] n = "cg" -> UnitRec("cg", "weight", QInt(10), 0, 0)
    [] n = "dg" -> UnitRec("dg", "weight", QInt(100), 0, 0)
    [] n = "g" -> UnitRec("g", "weight", QInt(1000), 0, 0)
    [] n = "dag" -> UnitRec("dag", "weight", QInt(10000), 0, 0)
    [] n = "hg" -> UnitRec("hg", "weight", QInt(100000), 0, 0)
    [] n = "kg" -> UnitRec("kg", "weight", QInt(1000000), 0, 0)
    [] n = "tonne" -> UnitRec("tonne", "weight", Norm(<<1, 1, 9>>), 0, 0)
    [] n = "oz" -> UnitRec("oz", "weight", QInt(1), 1, 0)
    [] n = "lb" -> UnitRec("lb", "weight", QInt(16), 1, 0)
    [] n = "st" -> UnitRec("st", "weight", QInt(224), 1, 0)
    [] n = "bit" -> UnitRec("bit", "memory", QInt(1), 0, 0)
    [] n = "byte" -> UnitRec("byte", "memory", QInt(1), 0, 3)
    [] n = "kb" -> UnitRec("kb", "memory", QInt(1), 0, 13)
    [] n = "mb" -> UnitRec("mb", "memory", QInt(1), 0, 23)
    [] n = "gb" -> UnitRec("gb", "memory", QInt(1), 0, 33)
    [] n = "tb" -> UnitRec("tb", "memory", QInt(1), 0, 43)
    [] n = "pb" -> UnitRec("pb", "memory", QInt(1), 0, 53)
    [] n = "eb" -> UnitRec("eb", "memory", QInt(1), 0, 63)
    [] n = "zb" -> UnitRec("zb", "memory", QInt(1), 0, 73)
    [] n = "yb" -> UnitRec("yb", "memory", QInt(1), 0, 83)
UnitsOfKind(k) == {n \in UnitNames : UnitOf(n).kind = k}

RECURSIVE Pow2Q(_)
Pow2Q(k) == IF k = 0 THEN One ELSE IF k > 0 THEN QMul(QInt(2), Pow2Q(k - 1)) ELSE QDiv(Pow2Q(k + 1), QInt(2))

\* a term the driver evaluates:  mul * OZ^oz * 2^e2   (oz in {-1, 0, 1})
UnitTerm(t, mul, oz, e2) == [k |-> "uterm", u |-> t, mul |-> mul, oz |-> oz, e2 |-> e2]
NotUnitOf(k) == [k |-> "notunits", us |-> UnitsOfKind(k)]

\* q of unit a expressed in unit b (same kind): q * size(a) / size(b)
ConvertUnitQ(q, a, b) ==
  LET ua == UnitOf(a)  ub == UnitOf(b)
      r  == QDiv(QMul(q, ua.f), ub.f)
      oz == ua.oz - ub.oz
      e2 == ua.e2 - ub.e2
  IN  IF oz = 0 /\ e2 \in -20..20 THEN [exact |-> TRUE, q |-> QMul(r, Pow2Q(e2))]
      ELSE [exact |-> FALSE, mul |-> r, oz |-> oz, e2 |-> e2]
ConvertUnit(q, a, b) ==
  IF UnitOf(a).kind # UnitOf(b).kind THEN NotUnitOf(UnitOf(b).kind)      \* quantities of different kinds are never converted
  ELSE LET c == ConvertUnitQ(q, a, b) IN IF c.exact THEN UnitQ(c.q, b) ELSE UnitTerm(b, c.mul, c.oz, c.e2)

\* l op r: l a quantity; r a quantity of the same kind or a plain number (u = "").  Where the conversion of r is not an
\* exact rational the result is a term the driver evaluates:  add + mul * OZ^oz * 2^e2,  or  add / (mul * ..) for a ratio
UnitArithTerm(t, add, mul, oz, e2, inv) == [k |-> "uterm", u |-> t, add |-> add, mul |-> mul, oz |-> oz, e2 |-> e2, inv |-> inv]
UnitArith(l, op, r) ==
  IF r.u = "" THEN (CASE op \in {"*", "/"} -> UnitQ(Apply(op, l.q, r.q), l.u) [] OTHER -> Unspec)
  ELSE IF UnitOf(l.u).kind # UnitOf(r.u).kind THEN Unspec
  ELSE LET c == ConvertUnitQ(r.q, r.u, l.u) IN
       IF c.exact
       THEN CASE op \in {"+", "-"} -> UnitQ(Apply(op, l.q, c.q), l.u)
              [] op = "/" -> Num(QDiv(l.q, c.q))
              [] OTHER -> Unspec
       ELSE CASE op = "+" -> UnitArithTerm(l.u, l.q, c.mul, c.oz, c.e2, FALSE)
              [] op = "-" -> UnitArithTerm(l.u, l.q, QNeg(c.mul), c.oz, c.e2, FALSE)
              [] op = "/" -> UnitArithTerm("", l.q, c.mul, c.oz, c.e2, TRUE)
              [] OTHER -> Unspec
=============================================================================
