CONSTANT MaxDepth = 5
INIT GInit
NEXT GNext
INVARIANT Emit
INVARIANT EmitTexts
INVARIANT SlotPerLine
CHECK_DEADLOCK FALSE
