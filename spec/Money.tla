-------------------------------- MODULE Money --------------------------------
(***************************************************************************)
(* C06.  Money.  A currency is its lower-case ISO code.  The calculator     *)
(* carries a rate table: the configured rates (symbolic here: their values  *)
(* live in config.json and do not fit 32-bit rationals) overridden by the   *)
(* rates set through update_currency (exact rationals).                     *)
(*                                                                         *)
(* calc.rates  sequence of [cur, q]: the overrides, at most one per code    *)
(* calc.alias  record spelling -> code (the configured alias table)         *)
(* calc.codes  set of all configured currency codes                         *)
(*                                                                         *)
(* Where every rate involved is an override the result is exact; otherwise  *)
(* it is a term over named configured rates, [k |-> "term", ...], which the *)
(* driver evaluates in double precision with the values of config.json:     *)
(*     value = add + mul * rate(num) / rate(den)          (inv = FALSE)     *)
(*     value = add / (mul * rate(num) / rate(den))        (inv = TRUE)      *)
(***************************************************************************)
EXTENDS Percent

Canon(calc, s) == IF s \in DOMAIN calc.alias THEN calc.alias[s] ELSE IF s \in calc.codes THEN s ELSE "none"

HasOverride(calc, c) == \E i \in DOMAIN calc.rates : calc.rates[i].cur = c
Override(calc, c) == LET i == CHOOSE i \in DOMAIN calc.rates : calc.rates[i].cur = c IN calc.rates[i].q
SetRate(calc, c, q) ==
  IF HasOverride(calc, c)
  THEN [calc EXCEPT !.rates = [i \in DOMAIN calc.rates |-> IF calc.rates[i].cur = c THEN [cur |-> c, q |-> q] ELSE calc.rates[i]]]
  ELSE [calc EXCEPT !.rates = Append(calc.rates, [cur |-> c, q |-> q])]

\* a rate as the driver must read it: the exact override, or the configured value of that currency
RateRef(calc, c) == IF HasOverride(calc, c) THEN [q |-> Override(calc, c)] ELSE [cfg |-> c]
TermOf(calc, kind, cur, add, mul, num, den, inv) ==
  [k |-> "term", kind |-> kind, cur |-> cur, add |-> add, mul |-> mul, num |-> RateRef(calc, num), den |-> RateRef(calc, den), inv |-> inv]

\* amount x of currency a expressed in currency b: x * rate(b) / rate(a)
ConvertQ(calc, x, a, b) == QDiv(QMul(x, Override(calc, b)), Override(calc, a))
Exact(calc, a, b) == a = b \/ (HasOverride(calc, a) /\ HasOverride(calc, b))
ConvQ(calc, x, a, b) == IF a = b THEN x ELSE ConvertQ(calc, x, a, b)

Convert(calc, x, a, b) ==
  IF Exact(calc, a, b) THEN Money(ConvQ(calc, x, a, b), b)
  ELSE TermOf(calc, "money", b, Zero, x, b, a, FALSE)

\* l op r with l money; r money or a plain number (cur = "")
MoneyArith(calc, l, op, r) ==
  IF r.cur = "" THEN
       (CASE op \in {"*", "/"} -> Money(Apply(op, l.q, r.q), l.cur)
          [] OTHER -> Unspec)
  ELSE CASE op \in {"+", "-"} ->
              IF Exact(calc, r.cur, l.cur) THEN Money(Apply(op, l.q, ConvQ(calc, r.q, r.cur, l.cur)), l.cur)
              ELSE TermOf(calc, "money", l.cur, l.q, IF op = "+" THEN r.q ELSE QNeg(r.q), l.cur, r.cur, FALSE)
         [] op = "/" ->
              IF Exact(calc, r.cur, l.cur) THEN Num(QDiv(l.q, ConvQ(calc, r.q, r.cur, l.cur)))
              ELSE TermOf(calc, "num", "", l.q, r.q, l.cur, r.cur, TRUE)
         [] OTHER -> Unspec
=============================================================================
