CONSTANT Depth = 2
INIT Init
NEXT Next
INVARIANT MinimalAgrees
INVARIANT FullAgrees
INVARIANT AdjacencyAdds
INVARIANT Canonical
INVARIANT Rejects
CHECK_DEADLOCK FALSE
