CONSTANT MaxLen = 3
INIT Init
NEXT Next
INVARIANT Emit
CHECK_DEADLOCK FALSE
