------------------------------ MODULE NumFormat ------------------------------
(***************************************************************************)
(* C07.  Printing of numbers, on digit sequences.                          *)
(*                                                                         *)
(* A value is given by its sign and the exact decimal expansion of its      *)
(* magnitude (every f64 has a finite one): integer digits ip, the first     *)
(* fraction digits fp and a flag sticky telling whether any digit beyond fp *)
(* is non-zero; for the rounding-off mode also by the digits of its         *)
(* shortest round-trip representation (sip, sfp).  The format setting is    *)
(* [d, remove, round, dec, tho]; characters are one-character strings.      *)
(*                                                                         *)
(* The result is a *set* of admissible character sequences: at an exact     *)
(* tie both neighbours are correctly rounded, and a negative value that     *)
(* rounds to zero may or may not keep its sign.                             *)
(***************************************************************************)
EXTENDS Registry

Ch(d) == HexChars[d + 1]
DigitChars(ds) == [i \in DOMAIN ds |-> Ch(ds[i])]
StrChars(s) == s        \* strings travel as sequences of one-character strings

RECURSIVE IncDigits(_)
IncDigits(ds) ==   \* decimal digit sequence + 1 (may grow by one digit)
  IF ds = <<>> THEN <<1>>
  ELSE IF ds[Len(ds)] < 9 THEN SubSeq(ds, 1, Len(ds) - 1) \o <<ds[Len(ds)] + 1>>
  ELSE IncDigits(SubSeq(ds, 1, Len(ds) - 1)) \o <<0>>

DigitAt(fp, i) == IF i <= Len(fp) THEN fp[i] ELSE 0
AnyNonZeroFrom(fp, i) == \E j \in DOMAIN fp : j >= i /\ fp[j] # 0
PadFrac(fp, d) == [i \in 1..d |-> DigitAt(fp, i)]

\* the admissible roundings of ip.fp... to d fraction digits, each as the full digit sequence ip' \o fp' (Len(fp') = d)
Roundings(ip, fp, sticky, d) ==
  LET kept == ip \o PadFrac(fp, d)
      nxt  == DigitAt(fp, d + 1)
      rest == sticky \/ AnyNonZeroFrom(fp, d + 2)
  IN  IF nxt > 5 \/ (nxt = 5 /\ rest) THEN {IncDigits(kept)}
      ELSE IF nxt = 5 THEN {kept, IncDigits(kept)}
      ELSE {kept}

\* integer digits grouped in threes from the right
RECURSIVE Grouped(_, _)
Grouped(ds, tho) ==
  IF Len(ds) <= 3 THEN DigitChars(ds)
  ELSE Grouped(SubSeq(ds, 1, Len(ds) - 3), tho) \o tho \o DigitChars(SubSeq(ds, Len(ds) - 2, Len(ds)))

AllZeroDigits(ds) == \A i \in DOMAIN ds : ds[i] = 0
RECURSIVE StripLeadingZeros(_)
StripLeadingZeros(ds) == IF Len(ds) > 1 /\ ds[1] = 0 THEN StripLeadingZeros(Tail(ds)) ELSE ds

\* one rounded digit sequence -> characters (without sign)
Body(all, d, fmt) ==
  LET ipd == StripLeadingZeros(SubSeq(all, 1, Len(all) - d))
      fpd == SubSeq(all, Len(all) - d + 1, Len(all))
      int == Grouped(IF ipd = <<>> THEN <<0>> ELSE ipd, fmt.tho)
  IN  IF d = 0 \/ (fmt.remove /\ AllZeroDigits(fpd)) THEN int ELSE int \o fmt.dec \o DigitChars(fpd)

Signs(neg, all) == IF ~neg THEN {<<>>} ELSE IF AllZeroDigits(all) THEN {<<>>, <<"-">>} ELSE {<<"-">>}

NumberStrings(v, fmt) ==
  IF fmt.round
  THEN UNION {{s \o Body(r, fmt.d, fmt) : s \in Signs(v.neg, r)} : r \in Roundings(v.ip, v.fp, v.sticky, fmt.d)}
  ELSE \* rounding off: the digits of the shortest representation, all of them or (zero-fraction removal on) none
       LET int == Grouped(v.sip, fmt.tho)
           s   == IF v.neg THEN <<"-">> ELSE <<>>
       IN  IF v.sfp = <<>> THEN {s \o int}
           ELSE IF fmt.remove THEN {s \o int \o fmt.dec \o DigitChars(v.sfp), s \o int}
           ELSE {s \o int \o fmt.dec \o DigitChars(v.sfp)}

\* kinds: plain number, percentage ('%' in front), money (symbol on the configured side, optional blank), unit (template)
Printed(kind, v, fmt, deco) ==
  LET ns == NumberStrings(v, fmt) IN
  CASE kind = "num"   -> ns
    [] kind = "pct"   -> {<<"%">> \o n : n \in ns}
    [] kind = "money" -> {IF deco.left THEN deco.sym \o (IF deco.space THEN <<" ">> ELSE <<>>) \o n
                          ELSE n \o (IF deco.space THEN <<" ">> ELSE <<>>) \o deco.sym : n \in ns}
    [] kind = "unit"  -> {deco.pre \o n \o deco.post : n \in ns}
=============================================================================
