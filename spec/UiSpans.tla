------------------------------- MODULE UiSpans -------------------------------
(***************************************************************************)
(* C17.  Highlight (UI) tokens of one line.  A token is <<start, end,       *)
(* kind>> with character (not byte) positions.  For a line of n characters  *)
(* the token list is well formed iff every token is a non-empty span inside *)
(* the line, the list is ordered by start and no two tokens overlap.  The   *)
(* renderer knows the character span of every number literal, operator and  *)
(* comment it wrote: each must be reported with its own kind and exactly    *)
(* its characters.                                                          *)
(***************************************************************************)
EXTENDS NumFormat

SpanOk(n, t) == 0 <= t[1] /\ t[1] < t[2] /\ t[2] <= n
WellFormedSpans(n, toks) ==
  /\ \A i \in DOMAIN toks : SpanOk(n, toks[i])
  /\ \A i \in DOMAIN toks : \A j \in DOMAIN toks : i < j => toks[i][2] <= toks[j][1]      \* ordered by start, disjoint
Reported(toks, lex) == \A i \in DOMAIN lex : \E j \in DOMAIN toks : toks[j] = lex[i]
UiOk(n, toks, lex) == WellFormedSpans(n, toks) /\ Reported(toks, lex)
\* what is wrong, for the report
UiDefects(n, toks, lex) ==
  [out_of_line |-> {i \in DOMAIN toks : ~SpanOk(n, toks[i])},
   disorder    |-> {i \in DOMAIN toks : \E j \in DOMAIN toks : i < j /\ toks[i][2] > toks[j][1]},
   missing     |-> {i \in DOMAIN lex : ~\E j \in DOMAIN toks : toks[j] = lex[i]}]
=============================================================================
