------------------------------- MODULE Values -------------------------------
(***************************************************************************)
(* The abstract value domain (DESIGN 4.3) and the agreement relation        *)
(* between a specified value and an observed one.                           *)
(*                                                                         *)
(*   [k |-> "num",   q |-> <<n,d,e>>]                  plain number          *)
(*   [k |-> "pct",   q |-> ...]                        percentage            *)
(*   [k |-> "money", q |-> ..., cur |-> "usd"]         amount in a currency  *)
(*   [k |-> "unit",  q |-> ..., u |-> "km"]            quantity in a unit    *)
(*   [k |-> "dur",   d |-> days, s |-> 0..86399]       signed duration       *)
(*   [k |-> "date",  day |-> days since 1970-01-01]                          *)
(*   [k |-> "time",  sod |-> UTC second of day, off |-> minutes, zone |-> n] *)
(*   [k |-> "datetime", d |-> days, s |-> second of day (UTC), off, zone]    *)
(*   [k |-> "err"]     the line is an error                                  *)
(*   [k |-> "empty"]   nothing to evaluate                                   *)
(*   [k |-> "unspec"]  the specification does not say (outside the domain)   *)
(***************************************************************************)
EXTENDS Rational

Unspec == [k |-> "unspec"]
Empty  == [k |-> "empty"]
Err    == [k |-> "err"]
Num(q)        == [k |-> "num", q |-> q]
Pct(q)        == [k |-> "pct", q |-> q]
Money(q, c)   == [k |-> "money", q |-> q, cur |-> c]
UnitQ(q, u)   == [k |-> "unit", q |-> q, u |-> u]
Dur(d, s)     == [k |-> "dur", d |-> d, s |-> s]
DurOfSecs(d, s) == \* normalise an arbitrary (days, seconds) pair
  LET t == s % 86400 IN Dur(d + (s - t) \div 86400, t)
Date(day)     == [k |-> "date", day |-> day]
Time(sod, off, zone) == [k |-> "time", sod |-> sod % 86400, off |-> off, zone |-> zone]
DateTime(d, s, off, zone) == [k |-> "datetime", d |-> d, s |-> s, off |-> off, zone |-> zone]

ValueKinds == {"num", "pct", "money", "unit", "dur", "date", "time", "datetime"}
\* what an evaluated line may legitimately be (C01): a value of some kind, an error, or nothing
SlotKinds  == ValueKinds \cup {"err", "empty", "none", "other"}
IsValue(v) == v.k \in ValueKinds

Has(r, f) == f \in DOMAIN r
\* an observed real number is handed over as the small rationals it can be read as (all within 1e-9 of the double:
\* q is the tightest reading, qs - when there are several - all of them); it agrees with an exact value that is one of them
QAgrees(obs, q) == Has(obs, "q") /\ (obs.q = q \/ (Has(obs, "qs") /\ \E i \in DOMAIN obs.qs : obs.qs[i] = q))

Matches(exp, obs) ==
  CASE exp.k = "unspec" -> obs.k \in SlotKinds
    [] exp.k = "empty"  -> obs.k = "empty"
    [] exp.k = "err"    -> obs.k = "err"
    [] exp.k = "num"    -> obs.k = "num" /\ QAgrees(obs, exp.q)
    [] exp.k = "pct"    -> obs.k = "pct" /\ QAgrees(obs, exp.q)
    [] exp.k = "money"  -> obs.k = "money" /\ QAgrees(obs, exp.q) /\ obs.cur = exp.cur
    [] exp.k = "unit"   -> obs.k = "unit" /\ QAgrees(obs, exp.q) /\ obs.u = exp.u
    [] exp.k = "dur"    -> obs.k = "dur" /\ obs.d = exp.d /\ obs.s = exp.s
    [] exp.k = "date"   -> obs.k = "date" /\ obs.day = exp.day
    [] exp.k = "time"   -> obs.k = "time" /\ obs.sod = exp.sod /\ obs.off = exp.off
    [] exp.k = "datetime" -> obs.k = "datetime" /\ obs.d = exp.d /\ obs.s = exp.s /\ obs.off = exp.off
    [] OTHER            -> FALSE

\* an observed slot turned into a specification value (used to re-synchronise after a disagreement)
OfObs(obs) ==
  IF obs.k \in {"num", "pct", "money", "unit"} /\ ~Has(obs, "q") THEN Unspec
  ELSE IF obs.k \in ValueKinds THEN obs ELSE Unspec
=============================================================================
