----------------------------- MODULE MC_Pipeline -----------------------------
(***************************************************************************)
(* Model check of the rule engine on the *actual* rule table of the tree    *)
(* under test (config.json and the date patterns of smartcalc.rs, handed    *)
(* over as JSON by lib/pipeline.py): every token sequence of length         *)
(* <= MaxLen over a token alphabet that covers times, zones, durations,     *)
(* dates, numbers, percentages, money and the connective words.             *)
(*  - PatternsShrink / Shrinks / Terminates: every pattern has >= 2         *)
(*    matchers, every rewrite shortens the line, the engine stops;          *)
(*  - Fixpoint: when it stops no rule is enabled;                           *)
(*  - StepIsFunction: the step-by-step machine computes NFRestart / NFRound; *)
(*  - ZonedDifference: "TIME ZONE to TIME ZONE" reduces to one DURATION     *)
(*    under the restart schedule (under the pinned round schedule it does   *)
(*    not - the design-level counterexample behind fix c3bcd8c);            *)
(*  - Differ: prints every start line on which the two schedules disagree.  *)
(***************************************************************************)
EXTENDS Naturals, Sequences, FiniteSets, TLC, Json, IOUtils
CONSTANTS MaxLen, Schedule
CurrencyWords == {"usd"}
RulesJ == JsonDeserialize(IOEnv.RULES).rules
Rules == RulesJ
VARIABLES toks, cur, dirty, done, log, start
P == INSTANCE Pipeline
T(k) == [k |-> k, w |-> ""]
W(w) == [k |-> "TEXT", w |-> w]
WordsJ == JsonDeserialize(IOEnv.RULES).words       \* the words of the alphabet, in the language of the rule table
Alphabet == {T("TIME"), T("TIMEZONE"), T("NUMBER"), T("DURATION"), T("DATE"), T("PERCENT"), T("MONEY"), T("MONTH")}
            \cup {W(WordsJ[i]) : i \in DOMAIN WordsJ}
RECURSIVE SeqsUpTo(_)
SeqsUpTo(n) == IF n = 0 THEN {<<>>} ELSE LET S == SeqsUpTo(n - 1) IN S \cup {Append(s, a) : s \in {x \in S : Len(x) = n - 1}, a \in Alphabet}
mvars == <<toks, cur, dirty, done, log, start>>
ZD == <<T("TIME"), T("TIMEZONE"), W("to"), T("TIME"), T("TIMEZONE")>>
Init == \E s \in SeqsUpTo(MaxLen) \cup {ZD} : P!PInit(s) /\ start = s
Next == P!PNext /\ UNCHANGED start
Spec == Init /\ [][Next]_mvars /\ WF_mvars(Next)

PatternsShrink == P!PatternsShrink
Fixpoint == P!Fixpoint
Shrinks == [][toks' # toks => Len(toks') < Len(toks)]_mvars
Terminates == <>done
StepIsFunction == done => (IF Schedule = "restart" THEN P!NFRestart(start, <<>>) ELSE P!NFRound(start, <<>>)) = [toks |-> toks, log |-> log]
ZonedDifference == (done /\ start = ZD) => toks = <<T("DURATION")>>
Differ == (toks = start /\ log = <<>> /\ P!NFRestart(start, <<>>).toks # P!NFRound(start, <<>>).toks)
            => PrintT(<<"INFO", ToJson([start |-> start, restart |-> P!NFRestart(start, <<>>), round |-> P!NFRound(start, <<>>)])>>)
=============================================================================
