CONSTANT N = 4
CONSTANT FullTest = FALSE
SPECIFICATION Spec
INVARIANT Disjoint
CHECK_DEADLOCK FALSE
