------------------------------ MODULE Gen_Chain ------------------------------
(***************************************************************************)
(* C03 generator: a name bound to a value that only arises as the RESULT of *)
(* a computation (never as a literal), then used as the operand of a        *)
(* phrase.  Two-line programs  name = <shift>  /  <phrase with name>.       *)
(* The second line is the form `via`: it means what the phrase means with   *)
(* the literal that denotes the first line's value - a clock time moved by  *)
(* 25 or 49 hours is the wall clock it shows, nothing of the days it passed *)
(* is kept; a date moved by days is that date.                              *)
(***************************************************************************)
EXTENDS Meaning, Json
P(n, u) == [n |-> n, u |-> u]
EST == [name |-> "EST", off |-> -300]
Name == <<"zorp">>
AEST == [name |-> "AEST", off |-> 600]
\* (zones east and west: moving a time may cross midnight in its own zone but not in UTC, or the other way round)
TimeShifts == {[form |-> "time_shift", w |-> w, z |-> z, op |-> o, parts |-> p] :
                 w \in {1800, 36000, 84600}, z \in {NoZone, AEST, EST}, o \in {"+", "-"}, p \in {<<P(25, "hour")>>, <<P(49, "hour")>>, <<P(2, "day"), P(3, "hour")>>, <<P(90, "minute")>>, <<P(2, "hour")>>}}
DateShifts == {[form |-> "date_shift", a |-> a, op |-> o, n |-> n, u |-> "day"] :
                 a \in {[y |-> 2020, m |-> 2, d |-> 28], [y |-> 2021, m |-> 12, d |-> 31]}, o \in {"+", "-"}, n \in {1, 3, 29}}
Ctx0 == [calc |-> DefaultCalc, lang |-> "en", today |-> 0, env |-> EmptyEnv]
\* the literal line that denotes the value of a shift
TimeLitOf(l) == LET t == LineMeaning(Ctx0, l).slot IN [form |-> "time_lit", w |-> TimePrinted(t)[1], z |-> l.z]
DateLitOf(l) == LET v == LineMeaning(Ctx0, l).slot  c == CivilFromDays(v.day) IN [form |-> "date_lit", a |-> [y |-> c.y, m |-> c.m, d |-> c.d]]
TimePhrases(lit) == {[form |-> "time_diff", w |-> lit.w, z |-> lit.z, w2 |-> w2, z2 |-> lit.z] : w2 \in {1800, 7200, 43200}}
               \cup {[form |-> "time_conv", w |-> lit.w, z |-> lit.z, z2 |-> EST]}
               \cup {[form |-> "time_shift", w |-> lit.w, z |-> lit.z, op |-> "+", parts |-> <<P(30, "minute")>>]}
DatePhrases(lit) == {[form |-> "date_diff", a |-> lit.a, b |-> b] : b \in {[y |-> 2020, m |-> 3, d |-> 1], [y |-> 2022, m |-> 1, d |-> 15]}}
               \cup {[form |-> "date_shift", a |-> lit.a, op |-> "+", n |-> 2, u |-> "day"]}
\* the same for amounts of money, quantities and durations that are results
O(q, c) == [q |-> q, cur |-> c]
X(q, u) == [q |-> q, u |-> u]
MoneyFirst == {[form |-> "money_arith", l |-> O(QInt(40), "usd"), op |-> "*", r |-> O(Q(5, 2), "")], [form |-> "money_arith", l |-> O(QInt(40), "eur"), op |-> "+", r |-> O(QInt(10), "eur")],
               [form |-> "pct_phrase", w |-> "+", p |-> QInt(25), x |-> O(QInt(80), "try")]}
UnitFirst == {[form |-> "unit_conv", x |-> X(QInt(5), "km"), target |-> "m"], [form |-> "unit_arith", l |-> X(QInt(3), "km"), op |-> "+", r |-> X(QInt(500), "m")],
              [form |-> "unit_arith", l |-> X(QInt(6), "kg"), op |-> "/", r |-> X(QInt(4), "")]}
DurFirst == {[form |-> "dur_arith", a |-> <<P(2, "hour")>>, op |-> "+", b |-> <<P(90, "minute")>>], [form |-> "dur_arith", a |-> <<P(3, "day")>>, op |-> "-", b |-> <<P(12, "hour")>>]}
MoneyLitOf(l) == LET v == LineMeaning(Ctx0, l).slot IN [form |-> "money_lit", x |-> O(v.q, v.cur)]
UnitLitOf(l) == LET v == LineMeaning(Ctx0, l).slot IN [form |-> "unit_lit", x |-> X(v.q, v.u)]
DurLitOf(l) == LET v == LineMeaning(Ctx0, l).slot IN [form |-> "dur_lit", parts |-> <<P(v.d, "day"), P(v.s, "second")>>]
MoneyPhrases(lit) == {[form |-> "money_conv", x |-> lit.x, target |-> t] : t \in {"try", "usd"}}
                \cup {[form |-> "money_arith", l |-> lit.x, op |-> "+", r |-> O(QInt(5), lit.x.cur)]}
                \cup {[form |-> "pct_phrase", w |-> "off", p |-> QInt(10), x |-> lit.x]}
UnitPhrases(lit) == {[form |-> "unit_conv", x |-> lit.x, target |-> IF UnitOf(lit.x.u).kind = "length" THEN "cm" ELSE "g"]}
               \cup {[form |-> "unit_arith", l |-> lit.x, op |-> "/", r |-> X(QInt(2), "")]}
DurPhrases(lit) == {[form |-> "dur_as", parts |-> lit.parts, target |-> "minute"], [form |-> "dur_arith", a |-> lit.parts, op |-> "+", b |-> <<P(30, "minute")>>]}
Prog2(s, lit, ph) == <<[form |-> "assign", name |-> Name, rhs |-> s], [form |-> "via", name |-> Name, operand |-> lit, phrase |-> ph]>>
MoneyProgs == UNION {{Prog2(s, MoneyLitOf(s), ph) : ph \in MoneyPhrases(MoneyLitOf(s))} : s \in MoneyFirst}
UnitProgs == UNION {{Prog2(s, UnitLitOf(s), ph) : ph \in UnitPhrases(UnitLitOf(s))} : s \in UnitFirst}
DurProgs == UNION {{Prog2(s, DurLitOf(s), ph) : ph \in DurPhrases(DurLitOf(s))} : s \in DurFirst}
\* durations held by names and written next to each other (C10 + C03): three bindings, then a line of names and literals
NA == <<"zorp">>  NB == <<"blip">>  NC == <<"quux">>
N(n) == [name |-> n]
L(ps) == [parts |-> ps]
DurBindings == {<<<<P(1, "hour")>>, <<P(20, "minute")>>, <<P(5, "second")>>>>, <<<<P(2, "day")>>, <<P(3, "hour"), P(30, "minute")>>, <<P(45, "second")>>>>,
                <<<<P(1, "week")>>, <<P(1, "day")>>, <<P(1, "hour")>>>>}
DurSeqs == {<<N(NA), N(NB)>>, <<N(NA), N(NB), N(NC)>>, <<N(NC), N(NB), N(NA)>>, <<N(NA), L(<<P(10, "minute")>>), N(NB)>>, <<N(NC), N(NB), N(NA), N(NC)>>,
            <<L(<<P(2, "day")>>), N(NA), N(NB), N(NC)>>, <<N(NA), N(NB), N(NC), N(NA), N(NB)>>, <<N(NA), N(NB), N(NC), N(NA), N(NB), N(NC)>>,
            <<N(NA), N(NB), N(NC), L(<<P(1, "minute")>>), N(NA), N(NB), N(NC)>>, <<N(NB), N(NB), N(NB)>>, <<N(NA), N(NB), L(<<P(7, "second")>>)>>}
DurSeqProgs == {<<[form |-> "assign", name |-> NA, rhs |-> [form |-> "dur_lit", parts |-> b[1]]], [form |-> "assign", name |-> NB, rhs |-> [form |-> "dur_lit", parts |-> b[2]]],
                  [form |-> "assign", name |-> NC, rhs |-> [form |-> "dur_lit", parts |-> b[3]]], [form |-> "dur_seq", items |-> s]>> : b \in DurBindings, s \in DurSeqs}
VARIABLES prog, tz
\* default zones other than UTC: a time that names no zone lives in the calculator's default zone, whose day is not UTC's
DefZones == {[name |-> "GMT+10", off |-> 600], [name |-> "GMT-11:30", off |-> -690]}
CtxZ(dz) == [Ctx0 EXCEPT !.calc.tz = dz]
TimeLitUnder(dz, l) == LET t == LineMeaning(CtxZ(dz), l).slot IN [form |-> "time_lit", w |-> TimePrinted(t)[1], z |-> l.z]
TimeProgsUnder(dz) == UNION {{<<[form |-> "assign", name |-> Name, rhs |-> s], [form |-> "via", name |-> Name, operand |-> TimeLitUnder(dz, s), phrase |-> ph]>> :
                               ph \in TimePhrases(TimeLitUnder(dz, s))} : s \in {x \in TimeShifts : x.z = NoZone}}
\* (a bound of a set constructor may not depend on another: programs are built shift by shift)
TimeProgs == UNION {{<<[form |-> "assign", name |-> Name, rhs |-> s], [form |-> "via", name |-> Name, operand |-> TimeLitOf(s), phrase |-> ph]>> : ph \in TimePhrases(TimeLitOf(s))} : s \in TimeShifts}
DateProgs == UNION {{<<[form |-> "assign", name |-> Name, rhs |-> s], [form |-> "via", name |-> Name, operand |-> DateLitOf(s), phrase |-> ph]>> : ph \in DatePhrases(DateLitOf(s))} : s \in DateShifts}
Init == \/ tz = Ctx0.calc.tz /\ prog \in TimeProgs \cup DateProgs \cup MoneyProgs \cup UnitProgs \cup DurProgs \cup DurSeqProgs
        \/ \E dz \in DefZones : tz = dz /\ prog \in TimeProgsUnder(dz)
Next == UNCHANGED <<prog, tz>>
Emit == PrintT(<<"CASE", ToJson([lines |-> prog, tz |-> tz, expected |-> RunLines(CtxZ(tz), prog, <<>>).slots])>>)
=============================================================================
