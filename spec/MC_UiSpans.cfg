INIT Init
NEXT Next
INVARIANT ChainEq
INVARIANT Anchors
CHECK_DEADLOCK FALSE
