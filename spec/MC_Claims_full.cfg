CONSTANT N = 7
CONSTANT FullTest = TRUE
SPECIFICATION Spec
INVARIANT Disjoint
INVARIANT OnlyContainment
CHECK_DEADLOCK FALSE
