CONSTANT MaxLen = 5
CONSTANT Alphabet = {1,2,3,4,5,6,7,8,9,10,11,12,13,14,15}
INIT Init
NEXT Next
INVARIANT Emit
CHECK_DEADLOCK FALSE
