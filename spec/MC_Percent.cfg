INIT Init
NEXT Next
INVARIANT OnIsOfPlus
INVARIANT OnOffSum
INVARIANT WhatInverts
INVARIANT TotalInverts
INVARIANT ZeroDivisor
INVARIANT Formulas
INVARIANT ConvIdentity
INVARIANT ConvTransitive
INVARIANT ConvInverse
INVARIANT ConvFormula
INVARIANT ArithOk
INVARIANT CanonOk
INVARIANT RateFrame
CHECK_DEADLOCK FALSE
