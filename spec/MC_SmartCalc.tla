---------------------------- MODULE MC_SmartCalc ----------------------------
(***************************************************************************)
(* Exhaustive model check of the system model with small constants:        *)
(* 2 sessions, 4 texts of 1..4 lines over 3 names (one a prefix of          *)
(* another), one separator change.  Checks C01's slot           *)
(* structure, C03's binding rules and C04's framing / isolation on every    *)
(* reachable state and step, that the step-by-step loop equals the          *)
(* macro-step, and (under fairness) that a started evaluation always ends.  *)
(***************************************************************************)
EXTENDS SmartCalc
CONSTANTS NTexts, WithEnv   \* number of texts used; whether day change and a second setter are explored

Sessions == {"s1", "s2"}
N(x) == Num(QInt(x))
W(ws) == [k |-> "words", ws |-> ws]
NumTok(x) == [k |-> "num", m |-> <<x, 1>>, sfx |-> ""]
Assign(n, rhs) == [form |-> "assign", name |-> n, rhs |-> rhs]
LitL(v) == [form |-> "lit", v |-> v]
Use(toks) == [form |-> "use", toks |-> toks]
FailL == [form |-> "fail", name |-> <<>>]
FailAssign(n) == [form |-> "assign", name |-> n, rhs |-> [form |-> "fail", name |-> n]]

AllTexts == <<
  << Assign(<<"foo">>, LitL(N(1))) >>,
  << Assign(<<"foo", "bar">>, LitL(N(2))), Use(<<W(<<"foo", "bar">>)>>) >>,
  << Use(<<W(<<"foo">>)>>), FailAssign(<<"foo">>), Use(<<W(<<"qux">>)>>) >>,
  << Assign(<<"foo">>, LitL(N(7))), Assign(<<"qux">>, Use(<<W(<<"foo">>), TOp("+"), NumTok(1)>>)),
     Assign(<<"foo">>, LitL(N(8))), Use(<<W(<<"qux">>)>>) >>
>>
Texts == SubSeq(AllTexts, 1, NTexts)
AllLines == UNION {{Texts[t][i] : i \in DOMAIN Texts[t]} : t \in DOMAIN Texts}

MCInit == InitCalc /\ today = 0
MCNext ==
  \/ \E t \in DOMAIN Texts : Execute("en", Texts[t])
  \/ \E s \in Sessions : s \notin DOMAIN sess /\ NewSession(s)
  \/ \E s \in Sessions, t \in DOMAIN Texts : SetText(s, Texts[t])
  \/ \E s \in Sessions : BeginExec(s)
  \/ EvalLine
  \/ EndExec
  \/ (calc.dec = "," /\ SetDecimalSep("."))
  \/ (WithEnv /\ calc.tho = "." /\ SetThousandSep(","))
  \/ (WithEnv /\ today < 1 /\ Tick)
MCSpec == MCInit /\ [][MCNext]_vars /\ WF_vars(EvalLine) /\ WF_vars(EndExec)

FailKeepsEnv == FailKeepsEnvOn(AllLines)
\* C01: a started evaluation terminates - an error slot never disables the rest of the loop
Terminates == [](run.active => <>(~run.active))
\* C04: the result of evaluating a text depends on (calc, today, text) only - in every reachable state
\* it equals what a fresh calculator with the same configuration returns
\* C08: the separators occur in reading and printing only - the meaning of every line is the same under every
\* separator configuration (true of the specification by construction; checked on every reachable state)
SepIndependent ==
  \A l \in AllLines : \A d \in {",", "."} : \A t \in {".", ",", ""} :
     \A s \in DOMAIN sess :
        LineMeaning([calc |-> [calc EXCEPT !.dec = d, !.tho = t], lang |-> sess[s].lang, today |-> today, env |-> sess[s].env], l)
          = LineMeaning(Ctx(sess[s].lang, sess[s].env), l)
HistoryIndependent ==
  \A t \in DOMAIN Texts :
     RunLines(Ctx("en", EmptyEnv), Texts[t], <<>>).slots
       = RunLines([calc |-> calc, lang |-> "en", today |-> today, env |-> EmptyEnv], Texts[t], <<>>).slots
=============================================================================
